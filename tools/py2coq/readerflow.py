"""Tie T for C09: fail-closed translation of the JSON and XML readers into the exception-flow
language of coq/theories/model/ReaderFlow.v  ->  coq/theories/gen/Gen_ReaderFlow.v.

For every function of adapter/json/json_deserialization.py and adapter/xml/xml_deserialization.py
the translator emits a `stmt`: the primitive operations in evaluation order (each with the exception
classes it may raise, taken from the hand-written table PRIMS below, keyed by callee kind), the calls
of other reader functions, explicit raises, try/except with the caught tuple and the re-raise
mapping, `if <failsafe flag>` branches.  Functions that take a constructor and/or a failsafe flag
as parameter (_failsafe_construct & co.) are specialised per (constructor, flag) actually passed.

Accepted grammar (anything else raises TranslationError = "proof obligation no longer checks"):
  statements  Assign/AnnAssign/AugAssign, Expr, Return, Raise, If, For, While, Try (one handler, no else/finally),
              With, Continue, Pass, docstrings
  expressions names, constants, attributes, subscripts (classified), calls (classified by callee),
              BoolOp/BinOp/UnaryOp/Compare/IfExp, f-strings, tuple/list/set/dict displays, comprehensions,
              generator expressions, yield, starred
Every call must be classified by `classify_call`; an unknown callee aborts the translation.
"""
import ast
import os

import common
from py2coq import TranslationError

JSON_SRC = "sdk/basyx/aas/adapter/json/json_deserialization.py"
XML_SRC = "sdk/basyx/aas/adapter/xml/xml_deserialization.py"
OUT = os.path.join(common.GEN, "Gen_ReaderFlow.v")

MODEL4 = ["AASCV", "ValueError", "TypeError", "KeyError"]
# kind -> (raise-set, environment kind, rationale)
PRIMS = {
    "dict_getitem": (["KeyError", "TypeError"], "EnvNone", "x[key] on an arbitrary parsed value"),
    "table_lookup": (["KeyError"], "EnvNone", "lookup in a constant table (enum inverse, XSD_TYPE_CLASSES)"),
    "contains": (["TypeError"], "EnvNone", "`key in x` on an arbitrary parsed value"),
    "index_const": ([], "EnvNone", "x[0] / x[-1] guarded by a length / truth test in the same function"),
    "slice": ([], "EnvNone", "slice of a str"),
    "guarded_getitem": ([], "EnvNone", "dict lookup guarded by a membership test in the same function"),
    "ctor": (MODEL4, "EnvNone", "constructor of a model class"),
    "setattr": (MODEL4, "EnvNone", "property setter of a model class"),
    "container_add": (MODEL4, "EnvNone", "add/append/extend on a model container"),
    "from_xsd": (["ValueError", "TypeError", "BinasciiError"], "EnvNone", "datatypes.from_xsd"),
    "b64decode": (["BinasciiError", "ValueError"], "EnvNone", "base64.b64decode of a str"),
    "json_load": (["JSONDecodeError", "UnicodeDecodeError"], "EnvSyntax", "json.load: not well-formed input"),
    "xml_parse": (["XMLSyntaxError"], "EnvSyntax", "etree.parse: not well-formed input"),
    "xml_io": (["OSError"], "EnvIO", "etree.parse: the file cannot be read"),
    "open": (["OSError"], "EnvIO", "open() of a path"),
    "store": ([], "EnvNone", "object_store.get/add/discard in the guarded order get -> discard -> add (C13)"),
    "pure": ([], "EnvNone", "builtin / str / logging / lxml accessor that does not raise on these arguments"),
    "fmt": ([], "EnvNone", "str()/repr()/format/f-string/pformat of parsed values or model objects"),
}
EXN_NAMES = {
    "KeyError": "KeyError", "TypeError": "TypeError", "ValueError": "ValueError",
    "model.AASConstraintViolation": "AASCV", "AssertionError": "AssertionError",
    "etree.XMLSyntaxError": "XMLSyntaxError", "AttributeError": "AttributeError", "IndexError": "IndexError",
    "LookupError": "LookupError", "OSError": "OSError",
}
# Python classes behind the Coq constructors (for the self-check of exn_sub against issubclass)
PY_EXN = {
    "KeyError": "builtins.KeyError", "TypeError": "builtins.TypeError", "ValueError": "builtins.ValueError",
    "AASCV": "basyx.aas.model.base.AASConstraintViolation", "LookupError": "builtins.LookupError",
    "IndexError": "builtins.IndexError", "AttributeError": "builtins.AttributeError",
    "AssertionError": "builtins.AssertionError", "BinasciiError": "binascii.Error",
    "UnicodeDecodeError": "builtins.UnicodeDecodeError", "JSONDecodeError": "json.decoder.JSONDecodeError",
    "XMLSyntaxError": "lxml.etree.XMLSyntaxError", "OSError": "builtins.OSError",
    "RecursionError": "builtins.RecursionError", "OverflowError": "builtins.OverflowError",
}
PURE_FUNCS = {"isinstance", "issubclass", "len", "tuple", "set", "type", "reversed", "get_args", "dict", "list",
              "contextlib.nullcontext", "etree.XMLParser", "bool", "enumerate", "zip"}
FMT_FUNCS = {"str", "repr", "pprint.pformat"}
# str.strip/lstrip/rstrip/lower/upper/endswith raise nothing on str receivers (validated by the event correspondence)
PURE_METHODS = {"find", "items", "get", "split", "values", "join", "keys", "startswith", "endswith", "zfill", "getroot",
                "strip", "lstrip", "rstrip", "lower", "upper"}
FMT_METHODS = {"format"}
LOG_METHODS = {"error", "warning", "info", "debug"}
ADD_METHODS = {"add", "append", "extend"}
SKIP_FUNCS = {"__init__"}
# parameters that are dicts by the contract of the caller (json calls object_hook with a dict only)
KNOWN_DICT = {("json", "object_hook", "dct"): {"modelType"},
              # the XML text/attribute mapping helpers receive one of the constant tables as `dct`
              ("xml", "_get_attrib_mandatory_mapped", "dct"): "*", ("xml", "_get_text_mapped_or_none", "dct"): "*",
              ("xml", "_get_text_mandatory_mapped", "dct"): "*"}
ENTRY = {"json": ["read_aas_json_file", "read_aas_json_file_into", "object_hook"],
         "xml": ["read_aas_xml_file", "read_aas_xml_file_into", "read_aas_xml_element"]}


def src(node):
    return ast.unparse(node)


def dotted(node):
    if isinstance(node, ast.Name):
        return node.id
    if isinstance(node, ast.Attribute):
        b = dotted(node.value)
        return None if b is None else b + "." + node.attr
    return None


class Fn:
    def __init__(self, mod, node, is_method):
        self.mod, self.node, self.is_method = mod, node, is_method
        self.name = node.name
        a = node.args
        if a.posonlyargs or a.kwonlyargs and False:
            raise TranslationError(f"{mod}:{self.name}: unsupported parameter kinds")
        self.params = [x.arg for x in a.args]
        if is_method:
            if self.params[:1] not in (["cls"], ["self"]):
                raise TranslationError(f"{mod}:{self.name}: method without cls/self")
            self.params = self.params[1:]
        self.defaults = {}
        for p, d in zip(reversed(a.args), reversed(a.defaults)):
            self.defaults[p.arg] = d
        self.has_ctor = "constructor" in self.params
        self.has_flag = "failsafe" in self.params
        self.body_ir = None


class Module:
    def __init__(self, tag, path):
        self.tag, self.path = tag, path
        self.tree = ast.parse(open(path, encoding="utf-8").read())
        self.fns = {}
        base_cls = {"json": "AASFromJsonDecoder", "xml": "AASFromXmlDecoder"}[tag]
        self.methods = set()
        for n in self.tree.body:
            if isinstance(n, ast.FunctionDef):
                self.fns[n.name] = Fn(tag, n, False)
            elif isinstance(n, ast.ClassDef):
                meths = [x for x in n.body if isinstance(x, ast.FunctionDef)]
                if n.name == base_cls:
                    for x in meths:
                        if x.name in SKIP_FUNCS:
                            continue
                        if x.name in self.fns:
                            raise TranslationError(f"{tag}: duplicate function name {x.name}")
                        self.fns[x.name] = Fn(tag, x, True)
                        self.methods.add(x.name)
                elif meths:
                    raise TranslationError(f"{tag}: class {n.name} defines methods; only {base_cls} may")
        for e in ENTRY[tag]:
            if e not in self.fns:
                raise TranslationError(f"{tag}: entry point {e} not found")


class Translator:
    """translates one function body into the parameterised IR"""

    def __init__(self, module, fn, sites):
        self.m, self.fn, self.sites = module, fn, sites
        self.pysets = set()        # local python set/dict/list variables
        self.dispatch = {}         # local dict variable -> [function names]
        self.fnvars = {}           # local variable holding a function -> [function names]
        self.excvar = None         # (name, caught classes) while inside a handler
        self.stmt_range = None
        self.object_class = None
        d = fn.defaults.get("object_class")
        if d is not None:
            self.object_class = dotted(d).split(".")[-1]
        self._prescan()

    # ---------------------------------------------------------------- helpers
    def err(self, node, msg):
        raise TranslationError(f"{self.m.tag}:{self.fn.name}:{getattr(node, 'lineno', '?')}: {msg}: "
                               f"{src(node)[:120] if isinstance(node, ast.AST) else ''}")

    def prim(self, kind, node, detail=""):
        raises, env, _ = PRIMS[kind]
        sid = len(self.sites)
        l0, l1 = self.stmt_range
        self.sites.append({"id": sid, "mod": self.m.tag, "fn": self.fn.name, "l0": l0, "l1": l1, "kind": kind,
                           "raises": list(raises), "env": env, "text": (detail or src(node))[:80]})
        return ("prim", sid)

    def raise_site(self, node, classes):
        """explicit raise statements get a site of their own (only used to check observed events)"""
        l0, l1 = self.stmt_range
        self.sites.append({"id": len(self.sites), "mod": self.m.tag, "fn": self.fn.name, "l0": l0, "l1": l1,
                           "kind": "raise", "raises": list(dict.fromkeys(classes)), "env": "EnvNone",
                           "text": src(node)[:80]})

    def is_flag(self, node):
        """'G' for cls.failsafe / decoder_.failsafe, 'P' for the local parameter `failsafe`,
        ('not', x) for negations, bool for constants, None otherwise"""
        if isinstance(node, ast.UnaryOp) and isinstance(node.op, ast.Not):
            f = self.is_flag(node.operand)
            return None if f is None else ("not", f)
        d = dotted(node)
        if d in ("cls.failsafe", "decoder_.failsafe"):
            return "G"
        if d == "failsafe":
            if self.fn.has_flag:
                # the `failsafe` parameter of the public entry points *is* the decoder's mode
                return "G" if self.fn.name in ("read_aas_json_file_into", "read_aas_xml_file_into",
                                               "read_aas_xml_element", "_select_decoder") else "P"
            self.err(node, "name `failsafe` that is not a parameter")
        if isinstance(node, ast.Constant) and isinstance(node.value, bool):
            return node.value
        return None

    def mentions_flag(self, node):
        """a failsafe flag occurs somewhere in node other than as a direct argument of a call"""
        as_arg = set()
        for n in ast.walk(node):
            if isinstance(n, ast.Call):
                for a in list(n.args) + [k.value for k in n.keywords]:
                    as_arg.add(id(a))
        for n in ast.walk(node):
            d = dotted(n) if isinstance(n, (ast.Name, ast.Attribute)) else None
            if d in ("cls.failsafe", "decoder_.failsafe", "failsafe") and id(n) not in as_arg:
                return True
        return False

    def fnref(self, node):
        """function(s) denoted by an expression used as a value, or None"""
        d = dotted(node)
        if d is not None:
            parts = d.split(".")
            if len(parts) == 2 and parts[0] in ("cls", "decoder_", "self") and parts[1] in self.m.methods:
                return ("set", [parts[1]])
            if len(parts) == 1:
                if parts[0] == "constructor" and self.fn.has_ctor:
                    return ("param",)
                if parts[0] in self.fnvars:
                    return ("set", list(self.fnvars[parts[0]]))
        if isinstance(node, ast.Subscript) and isinstance(node.value, ast.Name) and node.value.id in self.dispatch:
            return ("set", list(self.dispatch[node.value.id]))
        return None

    def dict_of_fns(self, node):
        """names of the functions held by a dict display / the {NS_AAS + k: v for k, v in {..}.items()} idiom"""
        if isinstance(node, ast.DictComp):
            g = node.generators
            if (len(g) == 1 and isinstance(g[0].iter, ast.Call) and isinstance(g[0].iter.func, ast.Attribute)
                    and g[0].iter.func.attr == "items"):
                inner = g[0].iter.func.value
                if isinstance(inner, ast.Name) and inner.id in self.dispatch:
                    return list(self.dispatch[inner.id])
                return self.dict_of_fns(inner)
            return None
        if isinstance(node, ast.Dict) and node.values:
            names = []
            for v in node.values:
                r = self.fnref(v)
                if r is None or r[0] != "set":
                    return None
                names += r[1]
            return names
        return None

    def _prescan(self):
        for n in ast.walk(self.fn.node):
            tgt = val = None
            if isinstance(n, ast.Assign) and len(n.targets) == 1:
                tgt, val = n.targets[0], n.value
            elif isinstance(n, ast.AnnAssign) and n.value is not None:
                tgt, val = n.target, n.value
            if isinstance(tgt, ast.Name) and val is not None:
                if (isinstance(val, ast.Call) and dotted(val.func) in ("set", "dict", "list") and not val.args) \
                        or (isinstance(val, (ast.Dict, ast.List, ast.Set)) and not getattr(val, "values", None)
                            and not getattr(val, "elts", None)):
                    self.pysets.add(tgt.id)
        # dispatch dicts and function variables need the order of definition -> second pass in order
        for n in ast.walk(self.fn.node):
            tgt = val = None
            if isinstance(n, ast.Assign) and len(n.targets) == 1:
                tgt, val = n.targets[0], n.value
            elif isinstance(n, ast.AnnAssign) and n.value is not None:
                tgt, val = n.target, n.value
            if isinstance(tgt, ast.Name) and val is not None:
                names = self.dict_of_fns(val)
                if names:
                    self.dispatch[tgt.id] = names
                    continue
                if tgt.id in self.fn.params:
                    continue
                r = self.fnref(val)
                if r is not None and r[0] == "set":
                    self.fnvars.setdefault(tgt.id, [])
                    for x in r[1]:
                        if x not in self.fnvars[tgt.id]:
                            self.fnvars[tgt.id].append(x)

    # ---------------------------------------------------------------- expressions
    def exprs(self, nodes):
        out = []
        for n in nodes:
            out += self.expr(n)
        return out

    def expr(self, n):
        """effects of evaluating n, in order"""
        if n is None or isinstance(n, (ast.Constant, ast.Name)):
            return []
        if isinstance(n, ast.Attribute):
            return self.expr(n.value)
        if isinstance(n, ast.Starred):
            return self.expr(n.value)
        if isinstance(n, (ast.Tuple, ast.List, ast.Set)):
            return self.exprs(n.elts)
        if isinstance(n, ast.Dict):
            return self.exprs([k for k in n.keys if k is not None]) + self.exprs(n.values)
        if isinstance(n, ast.JoinedStr):
            inner = self.exprs([v.value for v in n.values if isinstance(v, ast.FormattedValue)])
            return inner + ([self.prim("fmt", n)] if any(isinstance(v, ast.FormattedValue) for v in n.values) else [])
        if isinstance(n, ast.BinOp):
            return self.expr(n.left) + self.expr(n.right) + (
                [self.prim("fmt", n)] if isinstance(n.op, ast.Mod) else [])
        if isinstance(n, ast.UnaryOp):
            return self.expr(n.operand)
        if isinstance(n, ast.BoolOp):
            # short-circuit: the first operand always runs, the others may
            out = self.expr(n.values[0])
            for v in n.values[1:]:
                e = self.expr(v)
                if e:
                    out.append(("if", [("seq", e), ("seq", [])]))
            return out
        if isinstance(n, ast.IfExp):
            if self.mentions_flag(n.test):
                self.err(n, "failsafe flag inside a conditional expression")
            t, a, b = self.expr(n.test), self.expr(n.body), self.expr(n.orelse)
            return t + ([("if", [("seq", a), ("seq", b)])] if a or b else [])
        if isinstance(n, ast.Compare):
            out = self.expr(n.left)
            for op, c in zip(n.ops, n.comparators):
                out += self.expr(c)
                if isinstance(op, (ast.In, ast.NotIn)):
                    if not self.safe_container(c):
                        out.append(self.prim("contains", n))
            return out
        if isinstance(n, ast.Subscript):
            return self.subscript(n)
        if isinstance(n, ast.Call):
            return self.call(n)
        if isinstance(n, (ast.ListComp, ast.SetComp, ast.GeneratorExp, ast.DictComp)):
            out = []
            for g in n.generators:
                out += self.expr(g.iter)
            inner = []
            for g in n.generators:
                inner += self.exprs(g.ifs)
            if isinstance(n, ast.DictComp):
                inner += self.expr(n.key) + self.expr(n.value)
            else:
                inner += self.expr(n.elt)
            return out + ([("loop", ("seq", inner))] if inner else [])
        if isinstance(n, ast.Yield):
            return self.expr(n.value)
        if isinstance(n, ast.Slice):
            return self.expr(n.lower) + self.expr(n.upper) + self.expr(n.step)
        self.err(n, f"unsupported expression {type(n).__name__}")

    def safe_container(self, c):
        d = dotted(c)
        if isinstance(c, (ast.Tuple, ast.List, ast.Set, ast.Constant)):
            return True
        if isinstance(c, ast.Call) and isinstance(c.func, ast.Attribute) and c.func.attr in ("values", "keys"):
            return True
        if d is None:
            return False
        last = d.split(".")[-1]
        if (self.m.tag, self.fn.name, d) in KNOWN_DICT:
            return True
        return (d in self.pysets or d in self.dispatch or last.isupper() or last in ("attrib",)
                or d in ("ret",) and d in self.pysets)

    def subscript(self, n):
        out = self.expr(n.value)
        if isinstance(n.slice, ast.Slice):
            return out + self.expr(n.slice) + [self.prim("slice", n)]
        out += self.expr(n.slice)
        d = dotted(n.value)
        if d is not None:
            last = d.split(".")[-1]
            if d in self.dispatch:
                return out + [self.prim("guarded_getitem", n)]
            if last.isupper():
                return out + [self.prim("table_lookup", n)]
            if last == "attrib":
                return out + [self.prim("guarded_getitem", n)]
            allowed = KNOWN_DICT.get((self.m.tag, self.fn.name, d))
            if allowed == "*" or (allowed and isinstance(n.slice, ast.Constant) and n.slice.value in allowed):
                return out + [self.prim("guarded_getitem", n)]
        if isinstance(n.slice, ast.Constant) and isinstance(n.slice.value, int) or (
                isinstance(n.slice, ast.UnaryOp) and isinstance(n.slice.operand, ast.Constant)):
            return out + [self.prim("index_const", n)]
        return out + [self.prim("dict_getitem", n)]

    def bind_args(self, callee, call, skip_first=False):
        """maps the callee's parameter names to the actual argument nodes"""
        params = list(callee.params)
        actual = {}
        for i, a in enumerate(call.args):
            if isinstance(a, ast.Starred):
                self.err(call, "star-args in a call of a reader function")
            if i < len(params):
                actual[params[i]] = a
        for k in call.keywords:
            if k.arg is not None:
                actual[k.arg] = k.value
        return actual

    def reader_call(self, name, call):
        callee = self.m.fns[name]
        actual = self.bind_args(callee, call)
        carg = None
        if callee.has_ctor:
            a = actual.get("constructor")
            carg = self.fnref(a) if a is not None else None
            if carg is None:
                self.err(call, "constructor argument is not a reader function")
        flag = None
        if callee.has_flag:
            a = actual.get("failsafe")
            if a is None:
                dflt = callee.defaults.get("failsafe")
                if dflt is None:
                    self.err(call, "failsafe argument missing")
                a = dflt
            flag = self.is_flag(a)
            if flag is None or isinstance(flag, tuple):
                self.err(call, "failsafe argument is not a plain flag")
            if name in ("read_aas_json_file_into", "read_aas_xml_file_into", "read_aas_xml_element",
                        "_select_decoder", "_parse_xml_document") and flag is True and "failsafe" not in actual:
                flag = "G"
        return ("call", name, carg, flag)

    def call(self, n):
        f = n.func
        d = dotted(f)
        args_eff = []
        # effects of the arguments (function references are values, not effects)
        for a in n.args:
            if self.fnref(a) is None:
                args_eff += self.expr(a)
        for k in n.keywords:
            if self.fnref(k.value) is None:
                args_eff += self.expr(k.value)
        # ---- calls of the constructor parameter / a local function variable / a dispatch dict
        r = self.fnref(f)
        if r is not None:
            if r[0] == "param":
                return args_eff + [("callparam",)]
            pre = self.expr(f.value) + self.expr(f.slice) + [self.prim("guarded_getitem", f)] \
                if isinstance(f, ast.Subscript) else []
            calls = [self.reader_call_by_name(x, n) for x in r[1]]
            return pre + args_eff + [calls[0] if len(calls) == 1 else ("if", calls)]
        if d is None:
            # call on a computed callee: (IfExp)(msg) is handled in raise_; etree.parse(..).getroot()
            if isinstance(f, ast.Attribute) and f.attr in PURE_METHODS:
                return self.expr(f.value) + args_eff + [self.prim("pure", n, "." + f.attr + "()")]
            if isinstance(f, ast.Attribute) and f.attr in FMT_METHODS:
                return self.expr(f.value) + args_eff + [self.prim("fmt", n, ".format()")]
            self.err(n, "call of a computed callee")
        parts = d.split(".")
        # ---- reader functions
        if len(parts) == 1 and parts[0] in self.m.fns and parts[0] not in self.m.methods:
            return args_eff + [self.reader_call(parts[0], n)]
        if len(parts) == 2 and parts[0] in ("cls", "decoder_", "self") and parts[1] in self.m.methods:
            return args_eff + [self.reader_call(parts[1], n)]
        # ---- model / library primitives
        if d == "object_class":
            if "object_class" not in self.fn.params:
                self.err(n, "object_class is not a parameter")
            return args_eff + [self.prim("ctor", n, "ctor:" + (self.object_class or "<object_class>"))]
        if parts[0] == "model" and parts[-1][:1].isupper() and parts[-1] not in ("DictObjectStore",):
            return args_eff + [self.prim("ctor", n, "ctor:" + parts[-1])]
        if d == "model.DictObjectStore":
            return args_eff + [self.prim("pure", n)]
        if d == "model.datatypes.from_xsd":
            return args_eff + [self.prim("from_xsd", n)]
        if d == "base64.b64decode":
            return args_eff + [self.prim("b64decode", n)]
        if d == "json.load":
            kw = {k.arg: k.value for k in n.keywords}
            if dotted(kw.get("cls")) != "decoder_":
                self.err(n, "json.load without cls=decoder_")
            return args_eff + [self.prim("json_load", n), ("loop", ("call", "object_hook", None, None))]
        if d == "etree.parse":
            return args_eff + [self.prim("xml_io", n), self.prim("xml_parse", n)]
        if d == "open":
            return args_eff + [self.prim("open", n)]
        if d in PURE_FUNCS:
            return args_eff + [self.prim("pure", n)]
        if d in FMT_FUNCS:
            return args_eff + [self.prim("fmt", n)]
        if parts[0] == "logger" and parts[-1] in LOG_METHODS:
            return args_eff + [self.prim("fmt", n, "logger." + parts[-1])]
        if parts[0] == "object_store" and parts[-1] in ("get", "add", "discard"):
            return args_eff + [self.prim("store", n)]
        if len(parts) >= 2:
            meth, recv = parts[-1], ".".join(parts[:-1])
            if meth in ADD_METHODS:
                if recv in self.pysets:
                    return args_eff + [self.prim("pure", n, "set.add")]
                return args_eff + [self.prim("container_add", n)]
            if meth in PURE_METHODS:
                return args_eff + [self.prim("pure", n, "." + meth + "()")]
            if meth in FMT_METHODS:
                return args_eff + [self.prim("fmt", n, ".format()")]
        if d in EXN_NAMES:      # constructing an exception object (argument effects only)
            return args_eff
        self.err(n, f"unclassified callee `{d}`")

    def reader_call_by_name(self, name, call):
        if name not in self.m.fns:
            self.err(call, f"unknown reader function {name}")
        return ("call", name, None, None) if not (self.m.fns[name].has_ctor or self.m.fns[name].has_flag) \
            else self.reader_call(name, call)

    # ---------------------------------------------------------------- statements
    def exn_of(self, node):
        d = dotted(node)
        if d in EXN_NAMES:
            return EXN_NAMES[d]
        self.err(node, "unknown exception class")

    def exn_tuple(self, node):
        if node is None:
            self.err(self.fn.node, "bare except")
        if isinstance(node, ast.Tuple):
            return [self.exn_of(x) for x in node.elts]
        return [self.exn_of(node)]

    def rr_of(self, node):
        """the class expression of `raise <class expr>(msg)` -> (rules, default)"""
        # type(e)
        if isinstance(node, ast.Call) and dotted(node.func) == "type" and len(node.args) == 1 \
                and self.excvar and dotted(node.args[0]) == self.excvar[0]:
            return [], "RSame"
        if isinstance(node, ast.IfExp):
            t = node.test
            if not (isinstance(t, ast.Call) and dotted(t.func) == "isinstance" and self.excvar
                    and dotted(t.args[0]) == self.excvar[0]):
                self.err(node, "unsupported re-raise condition")
            classes = self.exn_tuple(t.args[1])
            r1, d1 = self.rr_of(node.body)
            if r1:
                self.err(node, "nested condition in the then-part of a re-raise")
            r2, d2 = self.rr_of(node.orelse)
            return [(classes, d1)] + r2, d2
        return [], ("RFixed", self.exn_of(node))

    def raise_(self, n):
        if n.exc is None:
            self.err(n, "bare raise")
        cause = self.expr(n.cause) if n.cause is not None and not isinstance(n.cause, ast.Name) else []
        exc = n.exc
        if isinstance(exc, ast.Name):
            if self.excvar and exc.id == self.excvar[0]:
                self.raise_site(n, list(self.excvar[1]))
                return [("reraise", [], "RSame")]
            self.raise_site(n, [self.exn_of(exc)])
            return [("raise", self.exn_of(exc))]
        if isinstance(exc, ast.Call):
            args = self.exprs(exc.args)
            rules, dflt = self.rr_of(exc.func)
            if not rules and isinstance(dflt, tuple):
                node = ("raise", dflt[1])
                self.raise_site(n, [dflt[1]])
            else:
                node = ("reraise", rules, dflt)
                # classes this statement can produce (for the observation check): fixed targets, and for
                # `type(e)` the classes named by the rule / the enclosing except clause
                classes = []
                for cl, r in rules:
                    classes += cl if r == "RSame" else [r[1]]
                classes += list(self.excvar[1]) if dflt == "RSame" else [dflt[1]]
                self.raise_site(n, classes)
            if self.fn.name == "read_aas_xml_element" and "cannot be constructed" in src(exc):
                # raised for an XMLConstructables member without constructor: depends on the caller's
                # argument, not on the document
                return args + cause + [("ifenv", "EnvArg", ("seq", [node]), ("seq", []))]
            return args + cause + [node]
        self.err(n, "unsupported raise")

    def set_range(self, node, header=None):
        h = header if header is not None else node
        self.stmt_range = (h.lineno, h.end_lineno)

    def block(self, stmts):
        out = []
        for s in stmts:
            out += self.stmt(s)
        return ("seq", out)

    def stmt(self, s):
        if isinstance(s, ast.Expr):
            self.set_range(s)
            if isinstance(s.value, ast.Constant) and isinstance(s.value.value, str):
                return []
            return self.expr(s.value)
        if isinstance(s, (ast.Assign, ast.AnnAssign, ast.AugAssign)):
            self.set_range(s)
            if s.value is None:
                return []
            targets = s.targets if isinstance(s, ast.Assign) else [s.target]
            if self.mentions_flag(s.value) and not isinstance(s.value, ast.Call):
                self.err(s, "failsafe flag assigned to a variable")
            out = [] if (self.fnref(s.value) is not None or self.dict_of_fns(s.value)) else self.expr(s.value)
            for t in targets:
                if isinstance(t, ast.Name):
                    continue
                if isinstance(t, ast.Attribute):
                    out += self.expr(t.value) + [self.prim("setattr", t, "set:" + t.attr)]
                elif isinstance(t, ast.Subscript):
                    if dotted(t.value) not in self.pysets:
                        self.err(s, "item assignment to something that is not a local dict")
                    out += self.expr(t.slice)
                elif isinstance(t, ast.Tuple) and all(isinstance(x, ast.Name) for x in t.elts):
                    continue
                else:
                    self.err(s, "unsupported assignment target")
            return out
        if isinstance(s, ast.Return):
            self.set_range(s)
            return self.expr(s.value) + [("return",)]
        if isinstance(s, ast.Continue):
            return [("continue",)]
        if isinstance(s, ast.Pass):
            return []
        if isinstance(s, ast.Raise):
            self.set_range(s)
            return self.raise_(s)
        if isinstance(s, ast.If):
            self.set_range(s, s.test)
            flag = self.is_flag(s.test)
            if flag is not None:
                neg = False
                while isinstance(flag, tuple):
                    neg, flag = not neg, flag[1]
                t, e = self.block(s.body), self.block(s.orelse)
                if neg:
                    t, e = e, t
                return [("iffs", flag, t, e)]
            if self.mentions_flag(s.test):
                self.err(s, "failsafe flag inside a compound condition")
            if src(s.test) == "existing_element is not None":
                return [("ifenv", "EnvConflict", self.block(s.body), self.block(s.orelse))]
            if src(s.test) == "constructed is None" and len(s.body) == 1 and isinstance(s.body[0], ast.Raise) \
                    and "AssertionError" in src(s.body[0]) and not s.orelse:
                # the "this is a bug in the SDK" trap of _failsafe_construct_mandatory
                return [("ifenv", "EnvBug", self.block(s.body), ("seq", []))]
            test = self.expr(s.test)
            return test + [("if", [self.block(s.body), self.block(s.orelse)])]
        if isinstance(s, ast.For):
            if s.orelse:
                self.err(s, "for-else")
            self.set_range(s, s.iter)
            it = self.expr(s.iter)
            return it + [("loop", self.block(s.body))]
        if isinstance(s, ast.While):
            if s.orelse:
                self.err(s, "while-else")
            self.set_range(s, s.test)
            t = self.expr(s.test)
            return [("loop", ("seq", t + [self.block(s.body)]))]
        if isinstance(s, ast.With):
            out = []
            for it in s.items:
                self.set_range(s, it.context_expr)
                out += self.expr(it.context_expr)
            return out + [self.block(s.body)]
        if isinstance(s, ast.Try):
            if len(s.handlers) != 1 or s.orelse or s.finalbody:
                self.err(s, "try with several handlers / else / finally")
            h = s.handlers[0]
            body = self.block(s.body)
            caught = self.exn_tuple(h.type)
            old = self.excvar
            self.excvar = (h.name or "<anonymous>", caught)
            hb = self.block(h.body)
            self.excvar = old
            return [("try", body, caught, hb)]
        self.err(s, f"unsupported statement {type(s).__name__}")

    def run(self):
        self.fn.body_ir = self.block(self.fn.node.body)


# -------------------------------------------------------------------- specialisation + emission

def translate():
    """-> dict(sites, instances [(key, ir)], index {key: id}, entries, fn_lines)"""
    sites = []
    mods = {"json": Module("json", os.path.join(common.REPO, JSON_SRC)),
            "xml": Module("xml", os.path.join(common.REPO, XML_SRC))}
    for m in mods.values():
        for fn in m.fns.values():
            Translator(m, fn, sites).run()
    index, order, bodies = {}, [], {}

    def inst(mod, name, carg, flag):
        key = (mod, name, carg, flag)
        if key not in index:
            index[key] = len(order)
            order.append(key)
        return index[key]

    def spec(mod, ir, carg, flag):
        k = ir[0]
        if k in ("prim", "raise", "reraise", "return", "continue"):
            return ir
        if k == "seq":
            return ("seq", [spec(mod, x, carg, flag) for x in ir[1]])
        if k == "if":
            return ("if", [spec(mod, x, carg, flag) for x in ir[1]])
        if k == "loop":
            return ("loop", spec(mod, ir[1], carg, flag))
        if k == "try":
            return ("try", spec(mod, ir[1], carg, flag), ir[2], spec(mod, ir[3], carg, flag))
        if k == "ifenv":
            return ("ifenv", ir[1], spec(mod, ir[2], carg, flag), spec(mod, ir[3], carg, flag))
        if k == "iffs":
            f = ir[1]
            if f == "P":
                f = flag
                if f is None:
                    raise TranslationError(f"{mod}: `failsafe` parameter used in a function specialised without flag")
            t, e = spec(mod, ir[2], carg, flag), spec(mod, ir[3], carg, flag)
            if f == "G":
                return ("iffs", t, e)
            return t if f is True else e
        if k == "callparam":
            if carg is None:
                raise TranslationError(f"{mod}: call of the constructor parameter without specialisation")
            return ("callid", inst(mod, carg, None, None) if not needs(mod, carg) else inst(mod, carg, None, "G"))
        if k == "call":
            _, name, c, f = ir
            if f == "P":
                f = flag
            if c is None:
                return ("callid", inst(mod, name, None, f))
            if c[0] == "param":
                return ("callid", inst(mod, name, carg, f))
            ids = [("callid", inst(mod, name, x, f)) for x in c[1]]
            return ids[0] if len(ids) == 1 else ("if", ids)
        raise TranslationError(f"internal: {k}")

    def needs(mod, name):
        return mods[mod].fns[name].has_flag

    entries = {}
    for tag in ("json", "xml"):
        for e in ENTRY[tag]:
            fn = mods[tag].fns[e]
            entries[f"{tag}:{e}"] = inst(tag, e, None, "G" if fn.has_flag else None)
    i = 0
    while i < len(order):
        mod, name, carg, flag = order[i]
        fn = mods[mod].fns[name]
        if fn.has_ctor and carg is None:
            raise TranslationError(f"{mod}:{name}: higher-order function reached without constructor")
        bodies[i] = spec(mod, fn.body_ir, carg, flag)
        i += 1
    fn_lines = {tag: {fn.name: (min([fn.node.lineno] + [d.lineno for d in fn.node.decorator_list]),
                                fn.node.end_lineno) for fn in m.fns.values()}
                for tag, m in mods.items()}
    return {"sites": sites, "order": order, "bodies": bodies, "entries": entries, "fn_lines": fn_lines}


def coq_exns(l):
    return "[" + "; ".join(l) + "]"


def coq_rr(r):
    return "RSame" if r == "RSame" else f"(RFixed {r[1]})"


def coq_stmt(ir, sites):
    k = ir[0]
    if k == "prim":
        s = sites[ir[1]]
        return f"SPrim {s['id']} {coq_exns(s['raises'])} {s['env']}"
    if k == "callid":
        return f"SCall {ir[1]}"
    if k == "return":
        return "SReturn"
    if k == "continue":
        return "SContinue"
    if k == "raise":
        return f"SRaise {ir[1]}"
    if k == "reraise":
        rules = "[" + "; ".join(f"({coq_exns(c)}, {coq_rr(r)})" for c, r in ir[1]) + "]"
        return f"SReraise {rules} {coq_rr(ir[2])}"
    if k in ("seq", "if"):
        items = [coq_stmt(x, sites) for x in ir[1]]
        if k == "seq":
            items = [x for x in items if x != "SSeq []"]
            if len(items) == 1:
                return items[0]
        return ("SSeq [" if k == "seq" else "SIf [") + "; ".join(items) + "]"
    if k == "iffs":
        return f"SIfFs ({coq_stmt(ir[1], sites)}) ({coq_stmt(ir[2], sites)})"
    if k == "ifenv":
        return f"SIfEnv {ir[1]} ({coq_stmt(ir[2], sites)}) ({coq_stmt(ir[3], sites)})"
    if k == "loop":
        return f"SLoop ({coq_stmt(ir[1], sites)})"
    if k == "try":
        return f"STry ({coq_stmt(ir[1], sites)}) {coq_exns(ir[2])} ({coq_stmt(ir[3], sites)})"
    raise TranslationError(f"internal emit: {k}")


def inst_name(key):
    mod, name, carg, flag = key
    s = f"{mod}:{name}"
    if carg is not None:
        s += f"<{carg}>"
    if flag is not None:
        s += {"G": "[mode]", True: "[failsafe]", False: "[strict]"}[flag]
    return s


def render(t):
    lines = ["(* GENERATED by tools/py2coq/readerflow.py from the current working tree of the SDK - do not edit. *)",
             "From Coq Require Import List NArith.",
             "From Basyx Require Import model.ReaderFlow.",
             "Import ListNotations.", "Local Open Scope N_scope.", ""]
    lines.append(f"(* {len(t['sites'])} primitive sites, {len(t['order'])} function instances *)")
    lines.append("Definition funs : list stmt := [")
    rows = []
    for i, key in enumerate(t["order"]):
        rows.append(f"  (* {i}: {inst_name(key)} *)\n  " + coq_stmt(t["bodies"][i], t["sites"]).replace("SCall ", "SCall ").replace(
            "%N", ""))
    lines.append(";\n".join(rows))
    lines.append("].")
    lines.append("")
    for name, idx in sorted(t["entries"].items()):
        ident = "entry_" + name.replace(":", "_")
        lines.append(f"Definition {ident} : nat := {idx}%nat.")
    return "\n".join(lines) + "\n"


def fix_call_scopes(text):
    """SCall takes a nat, SPrim a N: the file opens N_scope, so calls get an explicit %nat"""
    import re
    return re.sub(r"SCall (\d+)", r"SCall \1%nat", text)


def regenerate():
    t = translate()
    text = fix_call_scopes(render(t))
    changed = common.write_if_changed(OUT, text)
    regenerate.last = t
    return f"{len(t['sites'])} sites, {len(t['order'])} instances, {'rewritten' if changed else 'unchanged'}"


if __name__ == "__main__":
    print(regenerate())
