"""Fail-closed translators from /repo's Python source to Coq (tie T).
Each submodule defines regenerate() -> str (a message); it reads the *current* source under
common.REPO and (re)writes coq/theories/gen/Gen_*.v only when the content changed.  A construct
outside the translator's accepted grammar raises TranslationError (never silently skipped)."""
import importlib
import os
import pkgutil


class TranslationError(Exception):
    pass


def regenerate_all():
    msgs = []
    for m in sorted(pkgutil.iter_modules([os.path.dirname(__file__)]), key=lambda x: x.name):
        mod = importlib.import_module(f"py2coq.{m.name}")
        if hasattr(mod, "regenerate"):
            try:
                import inspect
                if len(inspect.signature(mod.regenerate).parameters) == 2:      # regenerate(repo, gen_dir)
                    import common
                    msgs.append(f"{m.name}: {str(mod.regenerate(common.REPO, common.GEN))[:300]}")
                else:
                    msgs.append(f"{m.name}: {str(mod.regenerate())[:300]}")
            except Exception as e:
                msgs.append(f"{m.name}: ABORTED {type(e).__name__}: {e}")
    return msgs
