"""Translator: sdk/basyx/aas/model/base.py HasSemantics.semantic_id setter -> coq/theories/gen/Gen_SemSetter.v
(property C02, AASd-118 on assignment to semantic_id).  Fail-closed.

The setter's control flow is translated including the containment state of the object (`self.parent is None`), early
`return`s and the KeyError of the namespace uniqueness test, so that moving the AASd-118 test into one branch changes the
generated model.  Result type `flow` (model/ConstraintsBase.v): FNext / FRaise e / FReturn.

   if C: B [else: B']        fwhen / if-then-else over flows
   raise AASConstraintViolation(<n>, ...) | KeyError(...) | ValueError(...)
   return                    FReturn
   self._semantic_id = semantic_id                         the store (FNext; the tie run checks the stored value)
   for set_ in self.parent.namespace_element_sets:
       if set_.contains_id("semantic_id", semantic_id): raise KeyError(...)     -> fwhen dup (FRaise EKey)
   the re-indexing statements (pinned text, two accepted versions: plain discard/re-add, and the one that remembers
   the position in an ordered set and restores the old state when the re-add is refused; C01's mechanics)   -> FNext
C ::= C and C | C or C | not C | semantic_id is [not] None | semantic_id | self.parent is [not] None | self.parent
    | len(self.supplemental_semantic_id) <op> <int> | self.supplemental_semantic_id
parameters of the generated function: sem_none (the new value is None), n_supp (len of the supplemental list),
has_parent, dup (a sibling set already holds that semantic id)."""
import ast
import os

from py2coq.c02engine import Abort, parse, find_class, src_of, exc_default, is_docstring

PINNED_IGNORABLE = {
    "set_add_list: List[NamespaceSet] = []",
    "for set_ in self.parent.namespace_element_sets:\n    if self in set_:\n        set_add_list.append(set_)\n        set_.discard(self)",
    "for set_ in set_add_list:\n    set_.add(self)",
    "self._semantic_id = semantic_id",
    # the re-indexing with position memory and restore-on-refusal (the re-add of a contained element can be refused by
    # the parent's hooks, e.g. AASd-114 of a SubmodelElementList - that refusal depends on the siblings and belongs to
    # the element-list rules / property C01; the translated model assumes the re-add succeeds)
    "set_add_list: List[Tuple[NamespaceSet, Optional[int]]] = []",
    "for set_ in self.parent.namespace_element_sets:\n    if self in set_:\n        set_add_list.append((set_, set_.index(self) "
    "if isinstance(set_, OrderedNamespaceSet) else None))\n        set_.discard(self)",
    "old_semantic_id = self._semantic_id",
    "try:\n    for set_, position in set_add_list:\n        if position is None:\n            set_.add(self)\n        else:\n"
    "            set_.insert(position, self)\nexcept Exception:\n    self._semantic_id = old_semantic_id\n"
    "    for set_, position in set_add_list:\n        if self not in set_:\n            if position is None:\n"
    "                set_.add(self)\n            else:\n                set_.insert(position, self)\n    raise",
}
DUP_LOOP = ("for set_ in self.parent.namespace_element_sets:\n    if set_.contains_id('semantic_id', semantic_id):\n"
            "        raise KeyError(")
OPS = {ast.Gt: ">?", ast.Lt: "<?", ast.GtE: ">=?", ast.LtE: "<=?", ast.Eq: "=?"}


def _is_self_attr(n, attr):
    return isinstance(n, ast.Attribute) and isinstance(n.value, ast.Name) and n.value.id == "self" and n.attr == attr


def cond(n):
    if isinstance(n, ast.BoolOp):
        op = " && " if isinstance(n.op, ast.And) else " || "
        return "(" + op.join(cond(v) for v in n.values) + ")"
    if isinstance(n, ast.UnaryOp) and isinstance(n.op, ast.Not):
        return f"(negb {cond(n.operand)})"
    if isinstance(n, ast.Name) and n.id == "semantic_id":
        return "(negb sem_none)"                      # a Reference is always truthy
    if _is_self_attr(n, "parent"):
        return "has_parent"                           # namespaces are always truthy objects
    if _is_self_attr(n, "supplemental_semantic_id"):
        return "(n_supp >? 0)"                        # ConstrainedList.__len__
    if isinstance(n, ast.Compare) and len(n.ops) == 1:
        l, op, r = n.left, n.ops[0], n.comparators[0]
        if isinstance(r, ast.Constant) and r.value is None and isinstance(op, (ast.Is, ast.IsNot)):
            if isinstance(l, ast.Name) and l.id == "semantic_id":
                return "sem_none" if isinstance(op, ast.Is) else "(negb sem_none)"
            if _is_self_attr(l, "parent"):
                return "(negb has_parent)" if isinstance(op, ast.Is) else "has_parent"
        if isinstance(l, ast.Call) and isinstance(l.func, ast.Name) and l.func.id == "len" and len(l.args) == 1 \
                and _is_self_attr(l.args[0], "supplemental_semantic_id") and type(op) in OPS \
                and isinstance(r, ast.Constant) and type(r.value) is int:
            return f"(n_supp {OPS[type(op)]} {r.value})"
    raise Abort("semantic_id setter: unsupported condition: " + src_of(n))


def block(stmts):
    out = []
    for st in stmts:
        if is_docstring(st):
            continue
        out.append(stmt(st))
    return "fseqs [" + ";\n      ".join(out) + "]"


def stmt(st):
    text = ast.unparse(st)
    if text in PINNED_IGNORABLE:
        return "FNext"
    if text.startswith(DUP_LOOP):
        return "fwhen dup (FRaise EKey)"
    if isinstance(st, ast.Return):
        if st.value is not None and not (isinstance(st.value, ast.Constant) and st.value.value is None):
            raise Abort("semantic_id setter: return with a value")
        return "FReturn"
    if isinstance(st, ast.Raise):
        if st.exc is None or st.cause is not None:
            raise Abort("semantic_id setter: unsupported raise")
        return f"FRaise ({exc_default(st.exc)})"
    if isinstance(st, ast.If):
        c = cond(st.test)
        if st.orelse:
            return f"(if {c} then {block(st.body)} else {block(st.orelse)})"
        return f"fwhen {c} ({block(st.body)})"
    raise Abort("semantic_id setter: unsupported statement: " + text[:200])


def translate(repo):
    mod, _ = parse(os.path.join(repo, "sdk/basyx/aas/model/base.py"))
    cls = find_class(mod, "HasSemantics")
    hits = [n for n in cls.body if isinstance(n, ast.FunctionDef) and n.name == "semantic_id" and len(n.decorator_list) == 1
            and ast.unparse(n.decorator_list[0]) == "semantic_id.setter"]
    if len(hits) != 1:
        raise Abort("HasSemantics.semantic_id setter not found")
    fn = hits[0]
    if [a.arg for a in fn.args.args] != ["self", "semantic_id"]:
        raise Abort("HasSemantics.semantic_id setter: unexpected parameters")
    # every path that does not raise must store the value: require the store as a statement that is reached
    # (checked dynamically by the tie run: the stored value is part of the observation)
    if "self._semantic_id = semantic_id" not in ast.unparse(fn):
        raise Abort("HasSemantics.semantic_id setter no longer stores self._semantic_id")
    text = ("(* GENERATED by tools/py2coq/semsetter.py from sdk/basyx/aas/model/base.py - do not edit. *)\n"
            "From Coq Require Import List ZArith Bool.\nFrom Basyx Require Import model.ConstraintsBase.\n"
            "Import ListNotations.\nLocal Open Scope Z_scope.\n\n"
            "Definition sem_setter_flow (sem_none : bool) (n_supp : Z) (has_parent dup : bool) : flow :=\n  "
            + block(fn.body) + ".\n\n"
            "Definition sem_setter_check (sem_none : bool) (n_supp : Z) (has_parent dup : bool) : option err :=\n"
            "  flow_err (sem_setter_flow sem_none n_supp has_parent dup).\n")
    return text, {}


def regenerate(repo, gen_dir):
    from common import write_if_changed
    text, info = translate(repo)
    write_if_changed(os.path.join(gen_dir, "Gen_SemSetter.v"), text)
    return info
