"""Translator: sdk/basyx/aas/model/submodel.py BasicEventElement direction / last_update / max_interval setters
-> coq/theories/gen/Gen_BeeChecks.v  (property C02: direction / UTC rules of event elements).  Fail-closed.

The translation keeps the difference between `X is not None` and the truthiness test `X`: a value is modelled as
pv = PNone | PFalsy | PTruthy (None; present but falsy, e.g. a zero-length Duration; present and truthy), and
   X is not None   ->  negb (pv_none X)        X is None  ->  pv_none X        X (as a condition)  ->  pv_truthy X
so that a rewrite of the premise "max_interval is set" changes the generated model (and the theorem over it).

Accepted shape per setter  `def <attr>(self, <attr>: T) -> None`:
    if COND: raise ValueError(...)
    self._<attr>: T = <attr>
COND ::= COND and COND | COND or COND | not COND
       | [self.]direction is [not] base.Direction.INPUT
       | V is None | V is not None | V                      V ::= max_interval | self.max_interval | last_update
       | last_update.tzname() != "UTC" | last_update.tzname() == "UTC"
and the constructor must assign  max_interval = None; direction; last_update; max_interval  in this order."""
import ast
import os

from py2coq.c02engine import Abort, BlockTr, parse, find_class, src_of, exc_default, is_docstring

PV_VARS = {"max_interval": "pv", "last_update": "upd"}


def _setter(cls, attr):
    hits = [n for n in cls.body if isinstance(n, ast.FunctionDef) and n.name == attr and len(n.decorator_list) == 1
            and ast.unparse(n.decorator_list[0]) == f"{attr}.setter"]
    if len(hits) != 1:
        raise Abort(f"BasicEventElement.{attr}: expected exactly one setter")
    fn = hits[0]
    if [a.arg for a in fn.args.args] != ["self", attr]:
        raise Abort(f"BasicEventElement.{attr} setter: unexpected parameters")
    return fn


class _Tr:
    def __init__(self, attr):
        self.attr = attr
        self.used = set()

    def var(self, n):
        """max_interval / self.max_interval / last_update / self.last_update -> (coq name, kind)"""
        if isinstance(n, ast.Name) and n.id in PV_VARS and n.id == self.attr:
            self.used.add((n.id, PV_VARS[n.id]))
            return n.id, PV_VARS[n.id]
        if isinstance(n, ast.Attribute) and isinstance(n.value, ast.Name) and n.value.id == "self" and n.attr in PV_VARS:
            name = "self_" + n.attr
            self.used.add((name, PV_VARS[n.attr]))
            return name, PV_VARS[n.attr]
        return None

    def direction(self, n):
        if isinstance(n, ast.Name) and n.id == "direction" and self.attr == "direction":
            self.used.add(("direction_input", "bool"))
            return "direction_input"
        if isinstance(n, ast.Attribute) and isinstance(n.value, ast.Name) and n.value.id == "self" and n.attr == "direction":
            self.used.add(("self_direction_input", "bool"))
            return "self_direction_input"
        return None

    def expr(self, n):
        if isinstance(n, ast.BoolOp):
            op = " && " if isinstance(n.op, ast.And) else " || "
            return "(" + op.join(self.expr(v) for v in n.values) + ")"
        if isinstance(n, ast.UnaryOp) and isinstance(n.op, ast.Not):
            return f"(negb {self.expr(n.operand)})"
        v = self.var(n)
        if v:                                                   # truthiness of a value
            return f"({v[1]}_truthy {v[0]})"
        if isinstance(n, ast.Compare) and len(n.ops) == 1:
            l, op, r = n.left, n.ops[0], n.comparators[0]
            d = self.direction(l)
            if d and isinstance(op, (ast.Is, ast.IsNot, ast.Eq, ast.NotEq)) and ast.unparse(r) == "base.Direction.INPUT":
                return d if isinstance(op, (ast.Is, ast.Eq)) else f"(negb {d})"
            if d and isinstance(op, (ast.Is, ast.IsNot, ast.Eq, ast.NotEq)) and ast.unparse(r) == "base.Direction.OUTPUT":
                return f"(negb {d})" if isinstance(op, (ast.Is, ast.Eq)) else d
            v = self.var(l)
            if v and isinstance(r, ast.Constant) and r.value is None and isinstance(op, (ast.Is, ast.IsNot)):
                t = f"({v[1]}_none {v[0]})"
                return t if isinstance(op, ast.Is) else f"(negb {t})"
            # last_update.tzname() != "UTC"
            if isinstance(l, ast.Call) and not l.args and not l.keywords and isinstance(l.func, ast.Attribute) \
                    and l.func.attr == "tzname" and isinstance(r, ast.Constant) and r.value == "UTC" \
                    and isinstance(op, (ast.Eq, ast.NotEq)):
                v = self.var(l.func.value)
                if v and v[1] == "upd":
                    t = f"(upd_utc {v[0]})"
                    return t if isinstance(op, ast.Eq) else f"(negb {t})"
        raise Abort(f"BasicEventElement.{self.attr} setter: unsupported condition: " + src_of(n))


def _translate_setter(cls, attr):
    fn = _setter(cls, attr)
    tr = _Tr(attr)

    def ignorable(st):
        # self._<attr>: T = <attr>   /  self._<attr> = <attr>
        tgt, val = None, None
        if isinstance(st, ast.AnnAssign):
            tgt, val = st.target, st.value
        elif isinstance(st, ast.Assign) and len(st.targets) == 1:
            tgt, val = st.targets[0], st.value
        return (tgt is not None and ast.unparse(tgt) == f"self._{attr}" and isinstance(val, ast.Name) and val.id == attr)

    def no_iter(n):
        raise Abort("loops not expected in a BasicEventElement setter")
    body = [s for s in fn.body if not is_docstring(s)]
    if not body or not ignorable(body[-1]) or any(ignorable(s) for s in body[:-1]):
        raise Abort(f"BasicEventElement.{attr} setter: the assignment to self._{attr} must be the last statement")
    bt = BlockTr(tr.expr, no_iter, exc_default, ignorable)
    term = bt.block(body)
    return term, tr.used


SIGS = {   # fixed parameter lists of the generated functions (a condition may use only these)
    "direction": [("direction_input", "bool"), ("self_max_interval", "pv")],
    "max_interval": [("max_interval", "pv"), ("self_direction_input", "bool")],
    "last_update": [("last_update", "upd")],
}


def translate(repo):
    mod, _ = parse(os.path.join(repo, "sdk/basyx/aas/model/submodel.py"))
    cls = find_class(mod, "BasicEventElement")
    out = ["(* GENERATED by tools/py2coq/beechecks.py from sdk/basyx/aas/model/submodel.py - do not edit. *)",
           "From Coq Require Import List ZArith Bool.", "From Basyx Require Import model.ConstraintsBase.",
           "Import ListNotations.", "Local Open Scope Z_scope.", ""]
    for attr in ("direction", "max_interval", "last_update"):
        term, used = _translate_setter(cls, attr)
        extra = [u for u in used if u not in SIGS[attr]]
        if extra:
            raise Abort(f"BasicEventElement.{attr} setter reads {extra}, which the model does not pass")
        params = " ".join(f"({n} : {t})" for n, t in SIGS[attr])
        out.append(f"Definition bee_{attr}_check {params} : option err :=\n  {term}.")
    # constructor: order of the assignments that go through the three setters
    init = [n for n in cls.body if isinstance(n, ast.FunctionDef) and n.name == "__init__"]
    if len(init) != 1:
        raise Abort("BasicEventElement.__init__ not found")
    seq = []
    for st in init[0].body:
        tgt, val = None, None
        if isinstance(st, ast.AnnAssign):
            tgt, val = st.target, st.value
        elif isinstance(st, ast.Assign) and len(st.targets) == 1:
            tgt, val = st.targets[0], st.value
        if tgt is not None and isinstance(tgt, ast.Attribute) and isinstance(tgt.value, ast.Name) and tgt.value.id == "self" \
                and tgt.attr in ("direction", "max_interval", "last_update"):
            seq.append((tgt.attr, ast.unparse(val)))
    want = [("max_interval", "None"), ("direction", "direction"), ("last_update", "last_update"),
            ("max_interval", "max_interval")]
    if seq != want:
        raise Abort(f"BasicEventElement.__init__ assigns {seq}, the model (bctor) assumes {want}")
    return "\n\n".join(out) + "\n", {"setters": list(SIGS)}


def regenerate(repo, gen_dir):
    from common import write_if_changed
    text, info = translate(repo)
    write_if_changed(os.path.join(gen_dir, "Gen_BeeChecks.v"), text)
    return info
