"""Tie T for C03 / C18 (and the JSON side of C05): translate the JSON adapter into per-class rule tables.

Reads (current working tree of common.REPO):
    sdk/basyx/aas/adapter/json/json_serialization.py   AASToJsonEncoder: default() mapping, _abstract_classes_to_json,
                                                       every _*_to_json method
    sdk/basyx/aas/adapter/json/json_deserialization.py AASFromJsonDecoder: object_hook parser table,
                                                       _amend_abstract_attributes, _get_kind, every _construct_*
    sdk/basyx/aas/adapter/_generic.py                  enum <-> string tables and their *_INVERSE comprehensions
    sdk/basyx/aas/model/datatypes.py                   XSD_TYPE_NAMES / XSD_TYPE_CLASSES
    sdk/basyx/aas/model/__init__.py                    KEY_TYPES_CLASSES
and writes coq/theories/gen/Gen_JsonRules.v (types of model/Codec.v) plus build/jsonrules.json for the harness.

Fail-closed: only the statement / expression shapes enumerated below are accepted; anything else raises
TranslationError naming the function and the source line.  The class hierarchy used to flatten the
isinstance(obj, model.X) blocks of the two abstract helpers is the live one of the imported SDK.
"""
import ast
import json
import os

from . import TranslationError
import common


class Fail(TranslationError):
    pass


def fail(node, fn, why):
    raise Fail(f"{fn}: line {getattr(node, 'lineno', '?')}: {why}: {ast.unparse(node)[:120]}")


def src(rel):
    return open(os.path.join(common.REPO, rel)).read()


# ------------------------------------------------------------------------------------------------ tables
def parse_generic_tables():
    """_generic.py: NAME: ... = {model.X.MEMBER: 'str', ...}  and NAME_INVERSE = {v: k for k, v in NAME.items()}"""
    tree = ast.parse(src("sdk/basyx/aas/adapter/_generic.py"))
    tables, inverses = {}, {}
    for st in tree.body:
        if isinstance(st, (ast.AnnAssign, ast.Assign)):
            tgt = st.target if isinstance(st, ast.AnnAssign) else st.targets[0]
            if not isinstance(tgt, ast.Name) or st.value is None:
                continue
            v = st.value
            if isinstance(v, ast.Dict) and v.keys and all(isinstance(k, ast.Attribute) for k in v.keys) \
                    and all(isinstance(x, ast.Constant) and isinstance(x.value, str) for x in v.values):
                tables[tgt.id] = [(k.attr, x.value) for k, x in zip(v.keys, v.values)]
            elif isinstance(v, ast.DictComp):
                # {v: k for k, v in NAME.items()}
                g = v.generators[0]
                ok = (isinstance(v.key, ast.Name) and isinstance(v.value, ast.Name) and len(v.generators) == 1
                      and isinstance(g.target, ast.Tuple) and [e.id for e in g.target.elts] == [v.value.id, v.key.id]
                      and isinstance(g.iter, ast.Call) and isinstance(g.iter.func, ast.Attribute)
                      and g.iter.func.attr == "items" and not g.ifs)
                if not ok:
                    fail(st, "_generic", "inverse table is not a plain {v: k for k, v in T.items()}")
                inverses[tgt.id] = ast.unparse(g.iter.func.value)
    return tables, inverses


def parse_xsd_names():
    """datatypes.py: XSD_TYPE_NAMES = {k: "xs:" + v for k, v in {Cls: "name", ...}.items()}; XSD_TYPE_CLASSES inverse"""
    tree = ast.parse(src("sdk/basyx/aas/model/datatypes.py"))
    names, inv_ok = None, False
    for st in tree.body:
        if isinstance(st, (ast.AnnAssign, ast.Assign)):
            tgt = st.target if isinstance(st, ast.AnnAssign) else st.targets[0]
            if isinstance(tgt, ast.Name) and tgt.id == "XSD_TYPE_NAMES":
                v = st.value
                try:
                    assert isinstance(v, ast.DictComp)
                    assert ast.unparse(v.key) == "k" and ast.unparse(v.value) in ("'xs:' + v", '"xs:" + v')
                    inner = v.generators[0].iter.func.value
                    assert isinstance(inner, ast.Dict)
                    names = [(ast.unparse(k).split(".")[-1], "xs:" + x.value) for k, x in zip(inner.keys, inner.values)]
                except (AssertionError, AttributeError):
                    fail(st, "datatypes", "XSD_TYPE_NAMES has an unexpected shape")
            if isinstance(tgt, ast.Name) and tgt.id == "XSD_TYPE_CLASSES":
                inv_ok = ast.unparse(st.value).replace(" ", "") == "{v:kfork,vinXSD_TYPE_NAMES.items()}"
    if names is None or not inv_ok:
        raise Fail("datatypes: XSD_TYPE_NAMES / XSD_TYPE_CLASSES not found in the expected shape")
    # class aliases (Duration = relativedelta ...) -> the canonical python class name used by the harness
    import basyx.aas.model.datatypes as dt
    return [(getattr(dt, k).__name__, v) for k, v in names]


def parse_key_types_classes():
    tree = ast.parse(src("sdk/basyx/aas/model/__init__.py"))
    for st in tree.body:
        if isinstance(st, ast.AnnAssign) and isinstance(st.target, ast.Name) and st.target.id == "KEY_TYPES_CLASSES":
            return [(k.id, v.attr) for k, v in zip(st.value.keys, st.value.values)]
    raise Fail("model/__init__: KEY_TYPES_CLASSES not found")


# ------------------------------------------------------------------------------------------------ writer
class Writer:
    def __init__(self, tables, xsd, ktc):
        from basyx.aas import model
        self.model = model
        self.tables, self.xsd, self.ktc = tables, xsd, ktc
        tree = ast.parse(src("sdk/basyx/aas/adapter/json/json_serialization.py"))
        self.cls = next(n for n in tree.body if isinstance(n, ast.ClassDef) and n.name == "AASToJsonEncoder")
        self.meth = {n.name: n for n in self.cls.body if isinstance(n, ast.FunctionDef)}
        self.mapping = self.parse_mapping()
        self.pseudo = {}

    def parse_mapping(self):
        f = self.meth["default"]
        for st in f.body:
            if isinstance(st, ast.AnnAssign) and isinstance(st.value, ast.Dict):
                return [(k.attr, v.attr) for k, v in zip(st.value.keys, st.value.values)]
        fail(f, "default", "mapping dict not found")

    def method_for(self, pycls):
        for cname, m in self.mapping:
            if issubclass(pycls, getattr(self.model, cname)):
                return m
        return None

    def modeltype_for(self, pycls):
        """data['modelType'] = next(t for t in getmro(type(obj)) if t in KEY_TYPES_CLASSES).__name__"""
        import inspect
        kc = {getattr(self.model, c) for c, _ in self.ktc}
        for t in inspect.getmro(pycls):
            if t in kc:
                return t.__name__
        return None

    # ---- expressions
    def attr_of(self, e, var="obj"):
        if isinstance(e, ast.Attribute) and isinstance(e.value, ast.Name) and e.value.id == var:
            return e.attr
        return None

    def enc_expr(self, e, fn, var="obj"):
        """-> (attr, venc-as-python-tuple)"""
        a = self.attr_of(e, var)
        if a:
            return a, ("EAuto",)
        if isinstance(e, ast.Call):
            f = ast.unparse(e.func)
            if f == "list" and len(e.args) == 1 and self.attr_of(e.args[0], var):
                return self.attr_of(e.args[0], var), ("EAuto",)
            if f == "model.datatypes.xsd_repr" and len(e.args) == 1 and self.attr_of(e.args[0], var):
                return self.attr_of(e.args[0], var), ("ELeaf",)
            if f.endswith(".decode") and isinstance(e.func.value, ast.Call) and \
                    ast.unparse(e.func.value.func) == "base64.b64encode" and self.attr_of(e.func.value.args[0], var):
                return self.attr_of(e.func.value.args[0], var), ("ELeaf",)
            if f == "cls._reference_to_json" and self.attr_of(e.args[0], var):
                return self.attr_of(e.args[0], var), ("EAuto",)
            if f == "cls._value_list_to_json" and self.attr_of(e.args[0], var):
                m = self.wrap_member("_value_list_to_json", "list(obj)")
                return self.attr_of(e.args[0], var), ("EObjWrap", m)
        if isinstance(e, ast.Subscript):
            base = ast.unparse(e.value)
            idx = e.slice
            if base.startswith("_generic.") and base[9:] in self.tables and self.attr_of(idx, var):
                return self.attr_of(idx, var), ("EEnum", base[9:])
            if base == "model.datatypes.XSD_TYPE_NAMES" and self.attr_of(idx, var):
                return self.attr_of(idx, var), ("EEnum", "XSD_TYPE_NAMES")
            if base == "_generic.KEY_TYPES" and isinstance(idx, ast.Subscript) and \
                    ast.unparse(idx.value) == "model.KEY_TYPES_CLASSES" and self.attr_of(idx.slice, var):
                return self.attr_of(idx.slice, var), ("EEnum", "KEY_TYPE_OF_CLASS")
        if isinstance(e, ast.DictComp):
            # {v: k in obj.level_types for k, v in _generic.IEC61360_LEVEL_TYPES.items()}
            u = ast.unparse(e).replace(" ", "")
            if u.startswith("{v:kin" + var + ".") and u.endswith("fork,vin_generic.IEC61360_LEVEL_TYPES.items()}"):
                return e.value.comparators[0].attr, ("ELevel", "IEC61360_LEVEL_TYPES")
        fail(e, fn, "unsupported value expression")

    def wrap_member(self, meth, inner):
        """a helper method that returns {'member': <inner>}"""
        f = self.meth[meth]
        ret = [s for s in f.body if isinstance(s, ast.Return)]
        if len(ret) == 1 and isinstance(ret[0].value, ast.Dict) and len(ret[0].value.keys) == 1 and \
                ast.unparse(ret[0].value.values[0]) == inner:
            return ret[0].value.keys[0].value
        fail(f, meth, "expected `return {'member': %s}`" % inner)

    def cond_expr(self, e, fn):
        """-> (attr, wcond tuple, unstripped_only)"""
        if isinstance(e, ast.BoolOp) and isinstance(e.op, ast.And) and len(e.values) == 2:
            l, r = e.values
            if ast.unparse(l) == "not cls.stripped":
                a, c, _ = self.cond_expr(r, fn)
                return a, c, True
            if self.attr_of(l) and ast.unparse(r) == "not isinstance(obj.parent, model.SubmodelElementList)":
                # idShort of list children is a generated one; the value model canonicalises it to VNone
                return self.attr_of(l), ("WTruthy",), False
        a = self.attr_of(e)
        if a:
            return a, ("WTruthy",), False
        if isinstance(e, ast.Compare) and len(e.ops) == 1:
            l, op, r = e.left, e.ops[0], e.comparators[0]
            if self.attr_of(l) and isinstance(op, ast.IsNot) and ast.unparse(r) == "None":
                return self.attr_of(l), ("WNotNone",), False
            if self.attr_of(l) and isinstance(op, ast.NotEq) and ast.unparse(r) == "set()":
                return self.attr_of(l), ("WNonEmpty",), False
            if isinstance(l, ast.Call) and ast.unparse(l.func) == "len" and self.attr_of(l.args[0]) and \
                    isinstance(op, ast.Gt) and ast.unparse(r) == "0":
                return self.attr_of(l.args[0]), ("WNonEmpty",), False
            if self.attr_of(l) and isinstance(op, ast.Is) and isinstance(r, ast.Attribute):
                return self.attr_of(l), ("WEquals", r.attr), False
        fail(e, fn, "unsupported condition")

    # ---- statements
    def rules_of_body(self, body, fn, pycls, outer=None, unstripped=False):
        """-> (consts, rules) for a statement list; rules: dict(member, attr, cond, enc, unstripped)"""
        consts, rules = [], []

        def add(member, e, cond, us):
            if isinstance(e, ast.Constant) and isinstance(e.value, str):
                consts.append((member, e.value))
                return
            if ast.unparse(e) == "_generic.REFERENCE_TYPES[obj.__class__]":
                t = dict(self.tables["REFERENCE_TYPES"])
                consts.append((member, t[pycls.__name__]))
                return
            if ast.unparse(e) == "ref_type.__name__":
                consts.append((member, self.modeltype_for(pycls)))
                return
            if isinstance(e, ast.ListComp) and isinstance(e.elt, ast.Dict):
                # embeddedDataSpecifications: list of dict literal over spec.<attr>
                g = e.generators[0]
                var = g.target.id
                a = self.attr_of(g.iter)
                prules = []
                for k, v in zip(e.elt.keys, e.elt.values):
                    pa, pe = self.enc_expr(v, fn, var)
                    prules.append(dict(member=k.value, attr=pa, cond=("WAlways",), enc=pe, unstripped=False))
                self.pseudo["EmbeddedDataSpecification"] = ([], prules)
                rules.append(dict(member=member, attr=a, cond=cond, enc=("EAuto",), unstripped=us))
                return
            a, enc = self.enc_expr(e, fn)
            c = cond
            if c is None:
                c = ("WAlways",)
            rules.append(dict(member=member, attr=a, cond=c, enc=enc, unstripped=us))

        for st in body:
            if isinstance(st, ast.Expr) and isinstance(st.value, ast.Constant):
                continue                                              # docstring
            if isinstance(st, ast.Return):
                if isinstance(st.value, ast.Name):
                    continue
                if isinstance(st.value, ast.Dict):
                    for k, v in zip(st.value.keys, st.value.values):
                        add(k.value, v, None, unstripped)
                    continue
                fail(st, fn, "unsupported return")
            if isinstance(st, (ast.Assign, ast.AnnAssign)):
                tgt = st.targets[0] if isinstance(st, ast.Assign) else st.target
                val = st.value
                if isinstance(tgt, ast.Name) and tgt.id in ("data", "data_spec"):
                    u = ast.unparse(val)
                    if u == "cls._abstract_classes_to_json(obj)":
                        c2, r2 = self.abstract_rules(pycls)
                        consts += c2
                        rules += r2
                        continue
                    if isinstance(val, ast.Dict):
                        for k, v in zip(val.keys, val.values):
                            add(k.value, v, None, unstripped)
                        continue
                    fail(st, fn, "unsupported initialisation of data")
                if isinstance(tgt, ast.Subscript) and isinstance(tgt.value, ast.Name) and \
                        tgt.value.id in ("data", "data_spec") and isinstance(tgt.slice, ast.Constant):
                    cond = None
                    if outer is not None:
                        cond = outer
                    add(tgt.slice.value, val, cond, unstripped)
                    continue
                fail(st, fn, "unsupported assignment")
            if isinstance(st, ast.Expr) and isinstance(st.value, ast.Call):
                u = ast.unparse(st.value.func)
                if u == "data.update" and isinstance(st.value.args[0], ast.Dict):
                    for k, v in zip(st.value.args[0].keys, st.value.args[0].values):
                        add(k.value, v, outer, unstripped)
                    continue
                if ast.unparse(st.value) == "data.update(cls._namespace_to_json(obj))":
                    nb = [s for s in self.meth["_namespace_to_json"].body
                          if not (isinstance(s, ast.Expr) and isinstance(s.value, ast.Constant))]
                    if [ast.unparse(s) for s in nb] != ["data = cls._abstract_classes_to_json(obj)", "return data"]:
                        fail(st, fn, "_namespace_to_json is no longer a plain alias of the abstract helper")
                    continue
                fail(st, fn, "unsupported call statement")
            if isinstance(st, ast.If):
                if st.orelse:
                    fail(st, fn, "else branches are not supported")
                a, c, us = self.cond_expr(st.test, fn)
                for inner in st.body:
                    if isinstance(inner, ast.If):
                        if outer is not None or inner.orelse:
                            fail(inner, fn, "if nesting deeper than 2")
                        a2, c2, us2 = self.cond_expr(inner.test, fn)
                        if c != ("WTruthy",) or c2 != ("WTruthy",):
                            fail(inner, fn, "nested conditions other than truthiness")
                        cc, rr = self.rules_of_body(inner.body, fn, pycls, outer=("WTruthyUnder", a), unstripped=us or us2)
                        for r in rr:
                            if r["attr"] != a2:
                                fail(inner, fn, "condition tests another attribute than it writes")
                        consts += cc
                        rules += rr
                    else:
                        cc, rr = self.rules_of_body([inner], fn, pycls, outer=c, unstripped=us or unstripped)
                        for r in rr:
                            if r["attr"] != a:
                                fail(inner, fn, "condition tests another attribute than it writes")
                        consts += cc
                        rules += rr
                continue
            if isinstance(st, ast.For):
                # for tag, nss in (('inputVariables', obj.input_variable), ...): if nss: data[tag] = [wrap(obj) for obj in nss]
                u = [ast.unparse(s).replace(" ", "") for s in st.body]
                if ast.unparse(st.target) == "(tag, nss)" and isinstance(st.iter, ast.Tuple) and \
                        u == ["ifnss:\ndata[tag]=[cls._operation_variable_to_json(obj)forobjinnss]"]:
                    m = self.wrap_member("_operation_variable_to_json", "obj")
                    for t in st.iter.elts:
                        rules.append(dict(member=t.elts[0].value, attr=self.attr_of(t.elts[1]), cond=("WTruthy",),
                                          enc=("EListWrap", m), unstripped=unstripped))
                    continue
                fail(st, fn, "unsupported loop")
            if isinstance(st, ast.Try):
                # the modelType lookup of the abstract helper
                u = ast.unparse(st.body[0]).replace(" ", "")
                if u == "ref_type=next(iter((tfortininspect.getmro(type(obj))iftinmodel.KEY_TYPES_CLASSES)))":
                    continue
                fail(st, fn, "unsupported try block")
            fail(st, fn, "unsupported statement")
        return consts, rules

    def abstract_rules(self, pycls):
        f = self.meth["_abstract_classes_to_json"]
        consts, rules = [], []
        for st in f.body:
            if isinstance(st, ast.Expr) and isinstance(st.value, ast.Constant):
                continue
            if isinstance(st, ast.AnnAssign) and ast.unparse(st.target) == "data":
                continue
            if isinstance(st, ast.Return):
                continue
            if isinstance(st, ast.If):
                t = st.test
                us = False
                if isinstance(t, ast.BoolOp) and isinstance(t.op, ast.And) and len(t.values) == 2 and \
                        ast.unparse(t.values[1]) == "not cls.stripped":
                    us = True
                    t = t.values[0]
                if isinstance(t, ast.Call) and ast.unparse(t.func) == "isinstance" and ast.unparse(t.args[0]) == "obj":
                    base = getattr(self.model, t.args[1].attr)
                    if issubclass(pycls, base):
                        c, r = self.rules_of_body(st.body, "_abstract_classes_to_json", pycls, unstripped=us)
                        consts += c
                        rules += r
                    continue
            fail(st, "_abstract_classes_to_json", "unsupported statement")
        return consts, rules

    def class_rules(self, cname, pycls):
        m = self.method_for(pycls)
        if m is None:
            return None
        return self.rules_of_body(self.meth[m].body, m, pycls)

    def lang_rules(self):
        f = self.meth["_lang_string_set_to_json"]
        ret = [s for s in f.body if isinstance(s, ast.Return)][0].value
        u = ast.unparse(ret).replace(" ", "")
        if u != "[{'language':k,'text':v}fork,vinobj.items()]":
            fail(f, "_lang_string_set_to_json", "unexpected shape")
        return ([], [dict(member="language", attr="language", cond=("WAlways",), enc=("EAuto",), unstripped=False),
                     dict(member="text", attr="text", cond=("WAlways",), enc=("EAuto",), unstripped=False)])


# ------------------------------------------------------------------------------------------------ reader
class Reader:
    def __init__(self, tables, inverses, xsd, ktc):
        from basyx.aas import model
        import aasgen
        self.model, self.meta = model, aasgen.META
        self.tables, self.inverses, self.xsd, self.ktc = tables, inverses, xsd, ktc
        tree = ast.parse(src("sdk/basyx/aas/adapter/json/json_deserialization.py"))
        self.cls = next(n for n in tree.body if isinstance(n, ast.ClassDef) and n.name == "AASFromJsonDecoder")
        self.meth = {n.name: n for n in self.cls.body if isinstance(n, ast.FunctionDef)}
        self.parsers = self.parse_parsers()
        self.ctor = {}    # constructor method -> class name, from `object_class=model.X` defaults
        for n, f in self.meth.items():
            if n.startswith("_construct_"):
                for a, d in zip(f.args.args[-len(f.args.defaults):] if f.args.defaults else [], f.args.defaults):
                    if a.arg == "object_class":
                        self.ctor[n] = ast.unparse(d).split(".")[-1]

    def parse_parsers(self):
        f = self.meth["object_hook"]
        for st in f.body:
            if isinstance(st, ast.AnnAssign) and ast.unparse(st.target) == "AAS_CLASS_PARSERS":
                return [(k.value, v.attr) for k, v in zip(st.value.keys, st.value.values)]
        fail(f, "object_hook", "AAS_CLASS_PARSERS not found")

    def subclasses(self, typename):
        import aasgen
        base = getattr(self.model, typename, None) or getattr(self.model.base, typename)
        return [c for c in self.meta if issubclass(aasgen.cls_of(c), base)]

    # ---- expressions
    def get_ts(self, e, dvar="dct"):
        """_get_ts(dct, 'm', T) -> (member, typename) or None"""
        if isinstance(e, ast.Call) and ast.unparse(e.func) == "_get_ts" and len(e.args) == 3 and \
                ast.unparse(e.args[0]) == dvar and isinstance(e.args[1], ast.Constant):
            return e.args[1].value, ast.unparse(e.args[2])
        return None

    def inv_table(self, name):
        if name in self.inverses:
            return self.inverses[name]
        return None

    def dec_expr(self, e, fn, dvar="dct"):
        """-> (member, vdec tuple)"""
        g = self.get_ts(e, dvar)
        if g:
            m, t = g
            if t == "str":
                return m, ("DcStr",)
            if t == "bool":
                return m, ("DcBool",)
            if t.startswith("model."):
                return m, ("DcAuto", self.subclasses(t.split(".")[-1]))
            fail(e, fn, "unsupported _get_ts type")
        if isinstance(e, ast.Subscript):
            base = ast.unparse(e.value)
            g = self.get_ts(e.slice, dvar)
            if g and g[1] == "str":
                if self.inv_table(base):
                    return g[0], ("DcEnum", self.inv_table(base))
                if base == "model.datatypes.XSD_TYPE_CLASSES":
                    return g[0], ("DcEnum", "XSD_TYPE_NAMES")
            if base == "KEY_TYPES_CLASSES_INVERSE" and isinstance(e.slice, ast.Subscript) and \
                    ast.unparse(e.slice.value) == "KEY_TYPES_INVERSE":
                g = self.get_ts(e.slice.slice, dvar)
                if g and g[1] == "str" and self.inv_table("KEY_TYPES_INVERSE") == "KEY_TYPES" and \
                        self.inv_table("KEY_TYPES_CLASSES_INVERSE") == "model.KEY_TYPES_CLASSES":
                    return g[0], ("DcEnum", "KEY_TYPE_OF_CLASS")
        if isinstance(e, ast.Call):
            f = ast.unparse(e.func)
            if f == "model.datatypes.from_xsd" and len(e.args) == 2:
                g = self.get_ts(e.args[0], dvar)
                if g and g[1] == "str":
                    return g[0], ("DcLeaf",)
            if f == "base64.b64decode":
                g = self.get_ts(e.args[0], dvar)
                if g and g[1] == "str":
                    return g[0], ("DcLeaf",)
            if f.startswith("cls._construct_") and e.args:
                meth = f[4:]
                g = self.get_ts(e.args[0], dvar)
                if g is None:
                    fail(e, fn, "constructor argument is not a _get_ts(...)")
                m, t = g
                return m, self.ctor_dec(meth, t, e, fn)
        fail(e, fn, "unsupported decoder expression")

    def ctor_dec(self, meth, t, e, fn):
        if meth == "_construct_reference" and t == "dict":
            self.check_reference_dispatch()
            return ("DcRef", ["ModelReference", "ExternalReference"])
        if meth == "_construct_model_reference" and t == "dict":
            return ("DcRef", ["ModelReference"])
        if meth == "_construct_external_reference" and t == "dict":
            return ("DcRef", ["ExternalReference"])
        if meth == "_construct_lang_string_set" and t == "list":
            self.check_lang()
            return ("DcList", ("DcObj", "LangString"))
        if meth == "_construct_value_list" and t == "dict":
            m = self.check_value_list()
            return ("DcObjUnwrap", m, ("DcList", ("DcObj", "ValueReferencePair")))
        if meth in self.ctor and t == "dict":
            return ("DcObj", self.ctor[meth])
        fail(e, fn, f"unknown constructor {meth}")

    def item_dec(self, e, fn, var):
        """decoder applied to a loop variable `var`"""
        if isinstance(e, ast.Name) and e.id == var:
            return None        # already an object (needs _expect_type)
        if isinstance(e, ast.Call) and ast.unparse(e.func).startswith("cls._construct_") and \
                isinstance(e.args[0], ast.Name) and e.args[0].id == var:
            meth = ast.unparse(e.func)[4:]
            if meth == "_construct_operation_variable":
                return self.check_opvar()
            return self.ctor_dec(meth, "dict", e, fn)
        fail(e, fn, "unsupported list item decoder")

    def check_reference_dispatch(self):
        f = self.meth["_construct_reference"]
        u = ast.unparse(f).replace(" ", "")
        need = ["reference_type:Type[model.Reference]=REFERENCE_TYPES_INVERSE[_get_ts(dct,'type',str)]",
                "ifreference_typeismodel.ModelReference:\nreturncls._construct_model_reference(dct,model.Referable)",
                "elifreference_typeismodel.ExternalReference:\nreturncls._construct_external_reference(dct)"]
        if not all(n in u for n in need) or self.inv_table("REFERENCE_TYPES_INVERSE") != "REFERENCE_TYPES":
            fail(f, "_construct_reference", "dispatch on the 'type' member changed")
        for m, c in (("_construct_model_reference", "ModelReference"), ("_construct_external_reference", "ExternalReference")):
            u = ast.unparse(self.meth[m]).replace(" ", "")
            if f"ifreference_typeisnotmodel.{c}:\nraiseValueError" not in u:
                fail(self.meth[m], m, "type guard changed")

    def check_lang(self):
        u = ast.unparse(self.meth["_construct_lang_string_set"]).replace(" ", "")
        if "ret[_get_ts(desc,'language',str)]=_get_ts(desc,'text',str)" not in u or "fordescinlst:" not in u \
                or "returnobject_class(ret)" not in u:
            fail(self.meth["_construct_lang_string_set"], "_construct_lang_string_set", "unexpected shape")

    def check_value_list(self):
        u = ast.unparse(self.meth["_construct_value_list"]).replace(" ", "")
        if "forelementin_get_ts(dct,'valueReferencePairs',list):" not in u or \
                "ret.add(cls._construct_value_reference_pair(element))" not in u:
            fail(self.meth["_construct_value_list"], "_construct_value_list", "unexpected shape")
        return "valueReferencePairs"

    def check_opvar(self):
        f = self.meth["_construct_operation_variable"]
        rets = [s for s in f.body if isinstance(s, ast.Return)]
        g = self.get_ts(rets[0].value) if rets else None
        if not g or not g[1].startswith("model."):
            fail(f, "_construct_operation_variable", "unexpected shape")
        return ("DcListUnwrap", g[0], ("DcAuto", self.subclasses(g[1].split(".")[-1])))

    def presence(self, e, fn):
        """'m' in dct [and dct['m'] is not None]  /  not cls.stripped and ... -> (member, cond, unstripped)"""
        us = False
        if isinstance(e, ast.BoolOp) and isinstance(e.op, ast.And) and ast.unparse(e.values[0]) == "not cls.stripped":
            us = True
            e = e.values[1] if len(e.values) == 2 else ast.BoolOp(op=ast.And(), values=e.values[1:])
        if isinstance(e, ast.Compare) and isinstance(e.ops[0], ast.In) and isinstance(e.left, ast.Constant) and \
                ast.unparse(e.comparators[0]) == "dct":
            return e.left.value, ("RIfPresent",), us
        if isinstance(e, ast.BoolOp) and isinstance(e.op, ast.And) and len(e.values) == 2:
            m, c, _ = self.presence(e.values[0], fn)
            if ast.unparse(e.values[1]).replace(" ", "") == f"dct['{m}']isnotNone":
                return m, ("RIfPresentNotNull",), us
        fail(e, fn, "unsupported presence test")

    def value_expr(self, e, fn):
        """an expression that yields an attribute value: plain decoder, or `X if 'm' in dct else default`
        -> (member, cond, dec)"""
        if isinstance(e, ast.IfExp):
            m, c, us = self.presence(e.test, fn)
            m2, d = self.dec_expr(e.body, fn)
            if m != m2 or c != ("RIfPresent",) or us:
                fail(e, fn, "conditional expression tests another member than it reads")
            dflt = ast.unparse(e.orelse)
            if dflt in ("None", "()"):
                return m, ("RIfPresent",), d
            if dflt == "True":
                return m, ("RDefault", ("VBool", True)), d
            if dflt.startswith("model.") and dflt.count(".") == 2:
                return m, ("RDefault", ("VStr", dflt.split(".")[-1])), d
            fail(e, fn, "unsupported default")
        if isinstance(e, ast.ListComp):
            fail(e, fn, "bare list comprehension")
        if isinstance(e, ast.Call) and ast.unparse(e.func) == "cls._get_kind":
            k = self.meth["_get_kind"]
            r = [s for s in k.body if isinstance(s, ast.Return)][0].value
            return self.value_expr(r, "_get_kind")
        m, d = self.dec_expr(e, fn)
        return m, ("RMandatory",), d

    def comp_expr(self, e, fn):
        """[cls._construct_x(v) for v in _get_ts(dct,'m',list)] (list or set comprehension) -> (member, dec)"""
        if isinstance(e, (ast.ListComp, ast.SetComp)) and len(e.generators) == 1 and not e.generators[0].ifs:
            g = self.get_ts(e.generators[0].iter)
            if g and g[1] == "list":
                d = self.item_dec(e.elt, fn, e.generators[0].target.id)
                if d is not None:
                    return g[0], ("DcList", d)
        return None

    # ---- statements
    def rules_of(self, meth, pycls):
        f = self.meth[meth]
        rules = []          # dict(attr, member, cond, dec, unstripped)
        locals_ = {}        # local variable -> (member, cond, dec) | None (initialised empty)

        def kwattr(k):
            return k.rstrip("_")

        def handle_ctor(call):
            for i, a in enumerate(call.args):
                fail(call, meth, "positional constructor arguments are not supported") \
                    if not (ast.unparse(a) == "None") else None
            for kw in call.keywords:
                v = kw.value
                if ast.unparse(v) == "None":
                    continue
                if isinstance(v, ast.Name) and v.id in locals_:
                    if locals_[v.id] is not None:
                        m, c, d = locals_[v.id]
                        rules.append(dict(attr=kwattr(kw.arg), member=m, cond=c, dec=d, unstripped=False))
                    continue
                if isinstance(v, ast.IfExp) and isinstance(v.body, (ast.ListComp, ast.SetComp)):
                    m, c, us = self.presence(v.test, meth)
                    ce = self.comp_expr(v.body, meth)
                    if ce is None or ce[0] != m or ast.unparse(v.orelse) != "()":
                        fail(v, meth, "unsupported conditional comprehension")
                    rules.append(dict(attr=kwattr(kw.arg), member=m, cond=("RIfPresent",), dec=ce[1], unstripped=us))
                    continue
                m, c, d = self.value_expr(v, meth)
                rules.append(dict(attr=kwattr(kw.arg), member=m, cond=c, dec=d, unstripped=False))

        def handle_loop(st, us, cond):
            """for x in _get_ts(dct,'m',list): [if _expect_type(x, T, ..):] target.add/append(<item>)"""
            g = self.get_ts(st.iter)
            if not g or g[1] != "list" or not isinstance(st.target, ast.Name):
                fail(st, meth, "unsupported loop header")
            var = st.target.id
            body = st.body
            expect = None
            if len(body) == 1 and isinstance(body[0], ast.If) and not body[0].orelse:
                t = body[0].test
                if isinstance(t, ast.Call) and ast.unparse(t.func) == "_expect_type" and ast.unparse(t.args[0]) == var:
                    tn = ast.unparse(t.args[1])
                    if tn == "type_value_list_element":
                        expect = self.subclasses("SubmodelElement")
                    elif tn.startswith("model."):
                        expect = self.subclasses(tn.split(".")[-1])
                    else:
                        fail(t, meth, "unsupported _expect_type class")
                    body = body[0].body
                else:
                    fail(t, meth, "unsupported filter in loop")
            if len(body) == 2 and isinstance(body[0], ast.Assign) and isinstance(body[1], ast.Expr):
                # constraint = cls._construct_qualifier(constraint_dct); obj.qualifier.add(constraint)
                tmp = body[0].targets[0].id
                call = body[1].value
                if ast.unparse(call.args[0]) != tmp:
                    fail(st, meth, "unsupported loop body")
                item = body[0].value
                body = [ast.Expr(value=ast.Call(func=call.func, args=[item], keywords=[]))]
            if len(body) != 1 or not isinstance(body[0], ast.Expr) or not isinstance(body[0].value, ast.Call):
                fail(st, meth, "unsupported loop body")
            call = body[0].value
            fu = ast.unparse(call.func)
            if not (fu.endswith(".add") or fu.endswith(".append")) or len(call.args) != 1:
                fail(st, meth, "loop body is not an add/append")
            target = fu.rsplit(".", 1)[0]
            item = call.args[0]
            if isinstance(item, ast.Call) and ast.unparse(item.func) == "model.EmbeddedDataSpecification":
                # inline construction from the dict `dspec`
                prules = []
                for kw in item.keywords:
                    m, c, d = self.value_expr_d(kw.value, meth, var)
                    prules.append(dict(attr=kw.arg, member=m, cond=c, dec=d, unstripped=False))
                self.pseudo_eds = prules
                d = ("DcObj", "EmbeddedDataSpecification")
            else:
                d = self.item_dec(item, meth, var)
                if d is None:
                    if expect is None:
                        fail(st, meth, "object items added without _expect_type")
                    d = ("DcAuto", expect)
            d = d if d[0] in ("DcListUnwrap",) else ("DcList", d)
            if target.startswith("ret.") or target.startswith("obj."):
                rules.append(dict(attr=target.split(".", 1)[1], member=g[0], cond=cond, dec=d, unstripped=us))
            elif target in locals_:
                locals_[target] = (g[0], cond, d)
            else:
                fail(st, meth, "unknown loop target")

        def handle_stmts(body, us=False, under=None):
            for st in body:
                if isinstance(st, ast.Expr) and isinstance(st.value, ast.Constant):
                    continue
                if isinstance(st, ast.Expr) and ast.unparse(st.value) in ("cls._amend_abstract_attributes(ret, dct)",):
                    rules.extend(self.abstract_rules(pycls))
                    continue
                if isinstance(st, ast.Expr) and isinstance(st.value, ast.Call) and \
                        ast.unparse(st.value.func) == "logger.warning":
                    continue
                if isinstance(st, ast.Return):
                    v = st.value
                    if isinstance(v, ast.Name) and v.id == "ret":
                        continue
                    if isinstance(v, ast.Call) and ast.unparse(v.func) == "object_class":
                        handle_ctor(v)
                        continue
                    fail(st, meth, "unsupported return")
                if isinstance(st, (ast.Assign, ast.AnnAssign)):
                    tgt = st.targets[0] if isinstance(st, ast.Assign) else st.target
                    v = st.value
                    tu = ast.unparse(tgt)
                    if tu == "ret" and isinstance(v, ast.Call) and ast.unparse(v.func) == "object_class":
                        handle_ctor(v)
                        continue
                    if isinstance(tgt, ast.Name):
                        if ast.unparse(v) in ("None", "set()"):
                            locals_[tgt.id] = None
                            continue
                        if tgt.id in locals_ and under is not None:
                            m, d = self.dec_expr(v, meth)
                            if m != under[0]:
                                fail(st, meth, "assignment reads another member than tested")
                            locals_[tgt.id] = (m, under[1], d)
                            continue
                        m, c, d = self.value_expr(v, meth)
                        locals_[tgt.id] = (m, c, d)
                        continue
                    if tu.startswith("ret.") or tu.startswith("obj."):
                        attr = tu.split(".", 1)[1]
                        ce = self.comp_expr(v, meth)
                        if ce is not None:
                            m, d = ce
                        else:
                            m, d = self.dec_expr(v, meth)
                        if under is None:
                            fail(st, meth, "unconditional attribute assignment after construction")
                        if m != under[0]:
                            fail(st, meth, "assignment reads another member than tested")
                        rules.append(dict(attr=attr, member=m, cond=under[1], dec=d, unstripped=us))
                        continue
                    fail(st, meth, "unsupported assignment")
                if isinstance(st, ast.If):
                    t = st.test
                    if isinstance(t, ast.UnaryOp) and isinstance(t.op, ast.Not) and \
                            ast.unparse(t.operand).startswith("issubclass(type_value_list_element"):
                        continue      # typeValueListElement must be a SubmodelElement class (raises ValueError)
                    m, c, us2 = self.presence(t, meth)
                    if under is not None:
                        if under[1] != ("RIfPresent",) or c != ("RIfPresent",):
                            fail(st, meth, "unsupported nesting of presence tests")
                        c = ("RIfPresentUnder", under[0])
                    handle_stmts(st.body, us or us2, (m, c))
                    for o in st.orelse:
                        if isinstance(o, ast.If) and all(isinstance(x, ast.Expr) and
                                                         ast.unparse(x.value).startswith("logger.") for x in o.body):
                            continue
                        fail(o, meth, "unsupported else branch")
                    continue
                if isinstance(st, ast.For):
                    if ast.unparse(st.target) == "(json_name, target)" and isinstance(st.iter, ast.Tuple):
                        # Operation: for json_name, target in ((..., ret.input_variable), ...): if json_name in dct: for
                        #   variable_data in _get_ts(dct, json_name, list): try: target.add(<opvar>) except ...
                        u = ast.unparse(st).replace(" ", "")
                        need = ["ifjson_nameindct:", "forvariable_datain_get_ts(dct,json_name,list):",
                                "target.add(cls._construct_operation_variable(variable_data))",
                                "except(KeyError,TypeError)ase:"]
                        if not all(n in u for n in need):
                            fail(st, meth, "operation variable loop changed")
                        d = self.check_opvar()
                        for t in st.iter.elts:
                            rules.append(dict(attr=ast.unparse(t.elts[1]).split(".", 1)[1], member=t.elts[0].value,
                                              cond=("RIfPresent",), dec=d, unstripped=False))
                        continue
                    if ast.unparse(st.target) == "(k, v)":
                        u = ast.unparse(st).replace(" ", "")
                        if u == ("fork,vin_get_ts(dct,'levelType',dict).items():\nifv:\n"
                                 "ret.level_types.add(IEC61360_LEVEL_TYPES_INVERSE[k])") and under and \
                                under[0] == "levelType" and self.inv_table("IEC61360_LEVEL_TYPES_INVERSE"):
                            rules.append(dict(attr="level_types", member="levelType", cond=under[1],
                                              dec=("DcLevel", "IEC61360_LEVEL_TYPES"), unstripped=us))
                            continue
                        fail(st, meth, "level type loop changed")
                    if under is None:
                        fail(st, meth, "loop outside a presence test")
                    g = self.get_ts(st.iter)
                    if not g or g[0] != under[0]:
                        fail(st, meth, "loop reads another member than tested")
                    handle_loop(st, us, under[1])
                    continue
                fail(st, meth, "unsupported statement")

        handle_stmts(f.body)
        return rules

    def value_expr_d(self, e, fn, dvar):
        m, d = self.dec_expr(e, fn, dvar)
        return m, ("RMandatory",), d

    def abstract_rules(self, pycls):
        f = self.meth["_amend_abstract_attributes"]
        out = []
        for st in f.body:
            if isinstance(st, ast.Expr) and isinstance(st.value, ast.Constant):
                continue
            if isinstance(st, ast.If):
                t = st.test
                us = False
                if isinstance(t, ast.BoolOp) and ast.unparse(t.values[1]) == "not cls.stripped":
                    us = True
                    t = t.values[0]
                if isinstance(t, ast.Call) and ast.unparse(t.func) == "isinstance" and ast.unparse(t.args[0]) == "obj":
                    if issubclass(pycls, getattr(self.model, t.args[1].attr)):
                        sub = Reader.__new__(Reader)
                        sub.__dict__ = self.__dict__
                        # reuse the statement handler on the block, with `obj.` targets
                        saved = self.meth.get("__tmp__")
                        fn = ast.FunctionDef(name="__tmp__", args=f.args, body=st.body, decorator_list=[], lineno=st.lineno)
                        self.meth["__tmp__"] = fn
                        rr = self.rules_of("__tmp__", pycls)
                        for r in rr:
                            r["unstripped"] = r["unstripped"] or us
                        out += rr
                        if saved is None:
                            del self.meth["__tmp__"]
                    continue
            fail(st, "_amend_abstract_attributes", "unsupported statement")
        return out


# ------------------------------------------------------------------------------------------------ emit
def q(s):
    return '"' + s.replace('"', '""') + '"'


def coq_value(v):
    if v[0] == "VBool":
        return f"VBool {'true' if v[1] else 'false'}"
    if v[0] == "VStr":
        return f"VStr {q(v[1])}"
    raise Fail(f"default value {v}")


def coq_wcond(c):
    return c[0] if len(c) == 1 else f"{c[0]} {q(c[1])}"


def coq_venc(e):
    if e[0] in ("EAuto", "ELeaf"):
        return e[0]
    if e[0] in ("EEnum", "ELevel"):
        return f"{e[0]} tbl_{e[1]}"
    return f"{e[0]} {q(e[1])}"


def coq_rcond(c):
    if c[0] == "RDefault":
        return f"RDefault ({coq_value(c[1])})"
    return c[0] if len(c) == 1 else f"{c[0]} {q(c[1])}"


def coq_strs(l):
    return "[" + "; ".join(q(x) for x in l) + "]"


def coq_vdec(d):
    k = d[0]
    if k in ("DcStr", "DcBool", "DcLeaf"):
        return k
    if k in ("DcEnum", "DcLevel"):
        return f"{k} tbl_{d[1]}"
    if k == "DcObj":
        return f"DcObj {q(d[1])}"
    if k in ("DcRef", "DcAuto"):
        return f"{k} {coq_strs(d[1])}"
    if k == "DcList":
        return f"DcList ({coq_vdec(d[1])})"
    if k in ("DcListUnwrap", "DcObjUnwrap"):
        return f"{k} {q(d[1])} ({coq_vdec(d[2])})"
    raise Fail(f"vdec {d}")


def coq_kind(kind, meta, enums):
    import aasgen
    refs = ["ModelReference", "ExternalReference"]

    def classes(c):
        if c in meta:
            return [c]
        base = aasgen.cls_of(c)
        return [x for x in meta if x != 'LangString' and issubclass(aasgen.cls_of(x), base)]

    def K(opt, base):
        return f"mkK {'true' if opt else 'false'} ({base})"
    if kind == "str":
        return K(False, "BStr true")
    if kind == "ostr":
        return K(True, "BStr true")
    if kind == "ostr0":
        return K(True, "BStr false")
    if kind == "bool":
        return K(False, "BBool")
    if kind.startswith("enum:"):
        return K(False, f"BEnum {coq_strs(enums[kind[5:]])}")
    if kind.startswith("oenum:"):
        return K(True, f"BEnum {coq_strs(enums[kind[6:]])}")
    if kind == "xsdtype":
        return K(False, f"BEnum {coq_strs(enums['__xsd__'])}")
    if kind == "oxsdtype":
        return K(True, f"BEnum {coq_strs(enums['__xsd__'])}")
    if kind == "keytypeclass":
        return K(False, f"BEnum {coq_strs(enums['__sme__'])}")
    if kind in ("leaf", "obytes", "odatetime", "oduration"):
        return K(True, "BLeaf")
    if kind == "ref":
        return K(False, f"BObj {coq_strs(refs)}")
    if kind == "oref":
        return K(True, f"BObj {coq_strs(refs)}")
    if kind == "mref":
        return K(False, 'BObj ["ModelReference"]')
    if kind == "omref":
        return K(True, 'BObj ["ModelReference"]')
    if kind in ("reflist", "refset"):
        return K(False, f"BList (BObj {coq_strs(refs)}) false")
    if kind.startswith("obj:"):
        return K(False, f"BObj {coq_strs(classes(kind[4:]))}")
    if kind.startswith("oobj:"):
        return K(True, f"BObj {coq_strs(classes(kind[5:]))}")
    if kind == "set:enum:IEC61360LevelType":
        return K(False, f"BEnumSet {coq_strs(enums['IEC61360LevelType'])}")
    if kind.startswith("list:") or kind.startswith("set:"):
        c = kind.split(":", 1)[1]
        return K(False, f"BList (BObj {coq_strs(classes(c))}) false")
    if kind.startswith("oset:"):
        return K(True, f"BList (BObj {coq_strs(classes(kind[5:]))}) false")
    if kind.startswith("olang:"):
        return K(True, 'BList (BObj ["LangString"]) true')
    if kind.startswith("lang:"):
        return K(False, 'BList (BObj ["LangString"]) true')
    raise Fail(f"kind {kind}")


def translate():
    import aasgen
    from basyx.aas import model
    tables, inverses = parse_generic_tables()
    xsd = parse_xsd_names()
    ktc = parse_key_types_classes()
    tables = dict(tables)
    tables["XSD_TYPE_NAMES"] = xsd
    kt = dict(tables["KEY_TYPES"])
    tables["KEY_TYPE_OF_CLASS"] = [(c, kt[m]) for c, m in ktc if m in kt]
    w = Writer(tables, xsd, ktc)
    r = Reader(tables, inverses, xsd, ktc)
    classes = {}
    for cname in aasgen.META:
        pycls = aasgen.cls_of(cname)
        wr = w.class_rules(cname, pycls)
        if cname == "EmbeddedDataSpecification":
            continue
        if wr is None:
            raise Fail(f"no writer method for {cname}")
        ctor = next((m for m, c in r.ctor.items() if c == cname), None)
        if cname == "ModelReference":
            ctor = "_construct_model_reference"
        if cname == "ExternalReference":
            ctor = "_construct_external_reference"
        if ctor is None:
            raise Fail(f"no reader method for {cname}")
        if cname in ("ModelReference", "ExternalReference"):
            rr = reference_reader_rules(r, ctor)
        else:
            rr = r.rules_of(ctor, pycls)
        classes[cname] = dict(consts=wr[0], w=wr[1], r=rr)
    classes["EmbeddedDataSpecification"] = dict(consts=w.pseudo["EmbeddedDataSpecification"][0],
                                                w=w.pseudo["EmbeddedDataSpecification"][1],
                                                r=getattr(r, "pseudo_eds", []))
    lc, lw = w.lang_rules()
    classes["LangString"] = dict(consts=lc, w=lw,
                                 r=[dict(attr="language", member="language", cond=("RMandatory",), dec=("DcStr",), unstripped=False),
                                    dict(attr="text", member="text", cond=("RMandatory",), dec=("DcStr",), unstripped=False)])
    # parser table of object_hook: modelType string -> class constructed
    parsers = [(mt, r.ctor.get(m)) for mt, m in r.parsers]
    enums = {e.__name__: [m.name for m in e] for e in
             (model.KeyTypes, model.QualifierKind, model.AssetKind, model.ModellingKind, model.EntityType,
              model.Direction, model.StateOfEvent, model.base.DataTypeIEC61360, model.base.IEC61360LevelType)}
    # specification side: the public key types (protected placeholders such as _ASSET are not part of the metamodel)
    enums["KeyTypes"] = [m for m in enums["KeyTypes"] if not m.startswith("_")]
    # LevelType of IEC 61360 in the order of the specification (min, nom, typ, max): canonical order of the set
    if sorted(enums["IEC61360LevelType"]) != ["MAX", "MIN", "NOM", "TYP"]:
        raise Fail("IEC61360LevelType members changed")
    enums["IEC61360LevelType"] = ["MIN", "NOM", "TYP", "MAX"]
    import basyx.aas.model.datatypes as dt
    # the 31 modelled XSD types, by class name (specification side; not read from the table under test)
    enums["__xsd__"] = ["relativedelta", "datetime", "Date", "time", "GYearMonth", "GYear", "GMonthDay", "GMonth",
                        "GDay", "bool", "Base64Binary", "HexBinary", "Float", "float", "Decimal", "int", "Long", "Int",
                        "Short", "Byte", "NonPositiveInteger", "NegativeInteger", "NonNegativeInteger",
                        "PositiveInteger", "UnsignedLong", "UnsignedInt", "UnsignedShort", "UnsignedByte", "AnyURI",
                        "str", "NormalizedString"]
    enums["__sme__"] = aasgen.SUBMODEL_ELEMENTS + ["SubmodelElement", "DataElement", "EventElement"]
    meta = dict(aasgen.META)
    meta["LangString"] = [("language", "str"), ("text", "str")]
    ctors = {}
    for m, c in r.ctor.items():
        ctors.setdefault(c, m.lstrip("_"))
    return dict(tables=tables, classes=classes, parsers=parsers, enums=enums, meta=meta, ctors=ctors)


def reference_reader_rules(r, ctor):
    f = r.meth[ctor]
    u = ast.unparse(f).replace(" ", "")
    if "keys=[cls._construct_key(key_data)forkey_datain_get_ts(dct,'keys',list)]" not in u or \
            "cls._construct_reference(_get_ts(dct,'referredSemanticId',dict))if'referredSemanticId'indctelseNone" not in u \
            or "returnobject_class(tuple(keys)," not in u:
        fail(f, ctor, "reference constructor changed shape")
    return [dict(attr="key", member="keys", cond=("RMandatory",), dec=("DcList", ("DcObj", "Key")), unstripped=False),
            dict(attr="referred_semantic_id", member="referredSemanticId", cond=("RIfPresent",),
                 dec=("DcRef", ["ModelReference", "ExternalReference"]), unstripped=False)]


def emit(t):
    out = ["(* GENERATED by tools/py2coq/jsonrules.py from the JSON adapter of the current working tree. Do not edit. *)",
           "From Coq Require Import List String.", "From Basyx Require Import model.Codec.", "Import ListNotations.",
           "Local Open Scope string_scope.", ""]
    for name, tbl in sorted(t["tables"].items()):
        out.append(f"Definition tbl_{name} : table := [" + "; ".join(f"({q(k)}, {q(v)})" for k, v in tbl) + "].")
    out.append("")
    for cname, c in t["classes"].items():
        out.append(f"Definition rules_{cname} : crules := mkC")
        out.append("  [" + "; ".join(f"({q(m)}, {q(v)})" for m, v in c["consts"]) + "]")
        out.append("  [" + ";\n   ".join(
            f"mkW {q(x['member'])} {q(x['attr'])} ({coq_wcond(x['cond'])}) ({coq_venc(x['enc'])}) "
            f"{'true' if x['unstripped'] else 'false'}" for x in c["w"]) + "]")
        out.append("  [" + ";\n   ".join(
            f"mkR {q(x['attr'])} {q(x['member'])} ({coq_rcond(x['cond'])}) ({coq_vdec(x['dec'])}) "
            f"{'true' if x['unstripped'] else 'false'}" for x in c["r"]) + "].")
    out.append("")
    out.append("Definition json_tables : tables := [" + ";\n  ".join(f"({q(c)}, rules_{c})" for c in t["classes"]) + "].")
    out.append("Definition json_parsers : list (string * string) := [" +
               "; ".join(f"({q(a)}, {q(b or '')})" for a, b in t["parsers"]) + "].")
    out.append("(* class -> name of its reader constructor method (without the leading underscore) *)")
    out.append("Definition json_reader_ctors : list (string * string) := [" +
               "; ".join(f"({q(c)}, {q(m)})" for c, m in sorted(t["ctors"].items())) + "].")
    out.append("")
    out.append("Definition json_meta : meta := [")
    rows = []
    for cname, attrs in t["meta"].items():
        rows.append(f"  ({q(cname)}, [" + "; ".join(f"({q(a)}, {coq_kind(k, t['meta'], t['enums'])})" for a, k in attrs) + "])")
    out.append(";\n".join(rows) + "].")
    return "\n".join(out) + "\n"


def regenerate():
    t = translate()
    txt = emit(t)
    changed = common.write_if_changed(os.path.join(common.GEN, "Gen_JsonRules.v"), txt)
    os.makedirs(common.BUILD, exist_ok=True)
    with open(os.path.join(common.BUILD, "jsonrules.json"), "w") as f:
        json.dump(t, f, indent=1, default=list)
    return f"Gen_JsonRules.v {'rewritten' if changed else 'unchanged'} ({len(t['classes'])} classes)"
