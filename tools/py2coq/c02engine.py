"""Fail-closed translation of straight-line validation code (`if c: raise E`, `for x in L:` over
such blocks) into Gallina terms of type `option err` (None = fell through, Some e = raised e).

Used by refchecks.py, strconstraints.py (property C02).  Anything outside the enumerated grammar
raises Abort; the check reports that as a proof obligation that no longer checks.

   block            seqs [s1; s2; ...]            first statement that raises decides
   if c: B          when (c) (B)
   if c: B else: B' (if c then B else B')
   for x in L: B    first_some (fun x => B) (L)   first raise aborts the loop
   raise E(...)     Some (E)
"""
import ast


class Abort(Exception):
    pass


def parse(path):
    with open(path, encoding="utf-8") as f:
        src = f.read()
    return ast.parse(src, filename=path), src


def find_class(mod, name):
    for n in mod.body:
        if isinstance(n, ast.ClassDef) and n.name == name:
            return n
    raise Abort(f"class {name} not found")


def find_func(body, name):
    hits = [n for n in body if isinstance(n, ast.FunctionDef) and n.name == name]
    if len(hits) != 1:
        raise Abort(f"function {name}: expected exactly one definition, found {len(hits)}")
    return hits[0]


def src_of(node):
    try:
        return ast.unparse(node)
    except Exception:
        return ast.dump(node)


def is_docstring(st):
    return isinstance(st, ast.Expr) and isinstance(st.value, ast.Constant) and isinstance(st.value.value, str)


class BlockTr:
    """expr(node) -> Coq bool term; iterable(node) -> Coq list term; exc(node) -> Coq err term;
    ignorable(stmt) -> bool (statements that cannot raise and have no bearing on the checks);
    wrap(stmt_node, coq) -> coq : lets the client bind partial sub-expressions (subscripts) per statement."""

    def __init__(self, expr, iterable, exc, ignorable, wrap=None, special=None):
        self.expr, self.iterable, self.exc, self.ignorable = expr, iterable, exc, ignorable
        self.wrap = wrap or (lambda st, c: c)
        self.special = special or (lambda st: None)

    def block(self, stmts):
        out = []
        for st in stmts:
            if is_docstring(st) or self.ignorable(st):
                continue
            out.append(self.stmt(st))
        return "seqs [" + ";\n      ".join(out) + "]"

    def stmt(self, st):
        sp = self.special(st)
        if sp is not None:
            return sp
        if isinstance(st, ast.If):
            c = self.expr(st.test)
            body = self.block(st.body)
            if st.orelse:
                r = f"(if {c} then {body} else {self.block(st.orelse)})"
            else:
                r = f"when ({c}) ({body})"
            return self.wrap(st.test, r)
        if isinstance(st, ast.For):
            if st.orelse:
                raise Abort("for/else not supported: " + src_of(st))
            if isinstance(st.target, ast.Name):
                binder = f"fun {st.target.id} => "
            elif isinstance(st.target, ast.Tuple) and all(isinstance(e, ast.Name) for e in st.target.elts) \
                    and len(st.target.elts) == 2:
                a, b = (e.id for e in st.target.elts)
                binder = f"fun p_ => let '({a}, {b}) := p_ in "
            else:
                raise Abort("unsupported loop target: " + src_of(st.target))
            r = f"first_some ({binder}{self.block(st.body)}) ({self.iterable(st.iter)})"
            return self.wrap(st.iter, r)
        if isinstance(st, ast.Raise):
            if st.cause is not None or st.exc is None:
                raise Abort("unsupported raise: " + src_of(st))
            return f"Some ({self.exc(st.exc)})"
        raise Abort("unsupported statement: " + src_of(st)[:200])


def exc_default(node):
    """ValueError(...) / TypeError(...) / KeyError(...) / AASConstraintViolation(<int literal>, ...)"""
    if not isinstance(node, ast.Call):
        raise Abort("raise of a non-call: " + src_of(node))
    f = node.func
    name = f.id if isinstance(f, ast.Name) else (f.attr if isinstance(f, ast.Attribute) else None)
    simple = {"ValueError": "EValue", "TypeError": "EType", "KeyError": "EKey", "IndexError": "EIndex",
              "AttributeError": "EAttr"}
    if name in simple:
        return simple[name]
    if name == "AASConstraintViolation":
        if not node.args or not (isinstance(node.args[0], ast.Constant) and type(node.args[0].value) is int):
            raise Abort("AASConstraintViolation without a literal constraint number: " + src_of(node))
        return f"EAASd {node.args[0].value}"
    raise Abort("unknown exception class: " + src_of(node))


def int_const(node):
    """Integer literals and the arithmetic used for bounds: a ** b, a - b, a + b, -a."""
    if isinstance(node, ast.Constant) and type(node.value) is int:
        return node.value
    if isinstance(node, ast.UnaryOp) and isinstance(node.op, ast.USub):
        return -int_const(node.operand)
    if isinstance(node, ast.BinOp):
        a, b = int_const(node.left), int_const(node.right)
        if isinstance(node.op, ast.Pow) and 0 <= b <= 128:
            return a ** b
        if isinstance(node.op, ast.Sub):
            return a - b
        if isinstance(node.op, ast.Add):
            return a + b
    raise Abort("not an integer constant expression: " + src_of(node))


def coq_z(n):
    return f"({n})" if n < 0 else str(n)
