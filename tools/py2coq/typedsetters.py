"""Translator: the value / min / max / value_type setters of Property, Range (submodel.py), Qualifier, Extension (base.py)
-> coq/theories/gen/Gen_TypedSetters.v   (property C02: typed values).  Fail-closed.

Each setter body becomes a Gallina function
    set_<Class>_<attr> (f_value_type : option pcls) (f_a f_b : option pyval) (<arg>) : (option pcls * option pyval * option pyval) + err
over the object's three relevant fields (value_type; _value or _min; _max - f_b is unused by the one-value holders); inl = the
fields after a normal return, inr = the exception raised (fields untouched: nothing was assigned before the raise is checked
by the translator: an assignment to self.* followed by a statement that can raise aborts).

Grammar accepted (anything else aborts):
  S ::= if C: S* [else: S*] | self._F = E | self._F: <ann> = E | <local> = E | raise ValueError(...) | raise TypeError(...)
  E ::= None | value | value_type | self.value_type | self._F | <local> | getattr(self, '_F', None)
      | datatypes.trivial_cast(E, E)
  C ::= E is None | E is not None
      | isinstance(self.parent, SubmodelElementList) and self.parent.type_value_list_element in (Property, Range)
        and value_type is not self.parent.value_type_list_element          (exactly this conjunction: AASd-109 guard)
  raise base.AASConstraintViolation(<int literal>, ...) is accepted besides ValueError / TypeError.
The value_type setters get one more parameter `list_other : bool`: the object is an item of a SubmodelElementList of
Properties / Ranges whose value_type_list_element is another class than the argument (the truth value of the guard above).
"""
import ast
import os

from py2coq.c02engine import Abort, parse, find_class, src_of, is_docstring

TARGETS = [("submodel.py", "Property", "value", "a"), ("submodel.py", "Property", "value_type", None),
           ("submodel.py", "Range", "min", "a"), ("submodel.py", "Range", "max", "b"), ("submodel.py", "Range", "value_type", None),
           ("base.py", "Qualifier", "value", "a"), ("base.py", "Qualifier", "value_type", None),
           ("base.py", "Extension", "value", "a"), ("base.py", "Extension", "value_type", None)]
FIELDS = {"Property": {"_value": "f_a", "_value_type": "f_value_type"},
          "Qualifier": {"_value": "f_a", "_value_type": "f_value_type"},
          "Extension": {"_value": "f_a", "_value_type": "f_value_type"},
          "Range": {"_min": "f_a", "_max": "f_b", "_value_type": "f_value_type"}}


def find_setter(cls, attr):
    hits = [n for n in cls.body if isinstance(n, ast.FunctionDef) and n.name == attr
            and any(src_of(d) == f"{attr}.setter" for d in n.decorator_list)]
    if len(hits) != 1:
        raise Abort(f"{cls.name}.{attr} setter: expected exactly one, found {len(hits)}")
    return hits[0]


class SetterTr:
    def __init__(self, cname, attr, fn):
        self.cname, self.attr, self.fields = cname, attr, FIELDS[cname]
        args = [a.arg for a in fn.args.args]
        if len(args) != 2 or args[0] != "self" or fn.args.vararg or fn.args.kwarg or fn.args.kwonlyargs:
            raise Abort(f"{cname}.{attr} setter: signature")
        self.arg = args[1]
        if self.arg not in ("value", "value_type"):
            raise Abort(f"{cname}.{attr} setter: parameter name {self.arg}")
        self.is_type_arg = self.arg == "value_type"
        self.n = 0
        self.uses_guard = False

    def fresh(self, base):
        self.n += 1
        return f"{base}_{self.n}"

    # an expression is (coq term, sort) with sort in {"val", "ty"}; trivial_cast is handled at statement level
    def E(self, n, env):
        if isinstance(n, ast.Constant) and n.value is None:
            return "None", None
        if isinstance(n, ast.Name):
            if n.id == self.arg:
                return "arg", ("ty" if self.is_type_arg else "val")
            if n.id in env:
                return env[n.id]
            raise Abort(f"{self.cname}.{self.attr}: unknown name {n.id}")
        if isinstance(n, ast.Attribute) and isinstance(n.value, ast.Name) and n.value.id == "self":
            if n.attr == "value_type":
                return env["self._value_type"]
            if n.attr in self.fields:
                return env["self." + n.attr]
        if isinstance(n, ast.Call) and src_of(n.func) == "getattr" and len(n.args) == 3 and src_of(n.args[0]) == "self" \
                and isinstance(n.args[1], ast.Constant) and n.args[1].value in self.fields \
                and isinstance(n.args[2], ast.Constant) and n.args[2].value is None:
            return env["self." + n.args[1].value]
        raise Abort(f"{self.cname}.{self.attr}: unsupported expression: " + src_of(n))

    GUARD109 = ("isinstance(self.parent, SubmodelElementList) and self.parent.type_value_list_element in (Property, Range) "
                "and (value_type is not self.parent.value_type_list_element)")

    def C(self, n, env):
        if isinstance(n, ast.BoolOp) and src_of(n) == self.GUARD109 and self.is_type_arg:
            self.uses_guard = True
            return "list_other"
        if isinstance(n, ast.Compare) and len(n.ops) == 1 and isinstance(n.ops[0], (ast.Is, ast.IsNot)) \
                and isinstance(n.comparators[0], ast.Constant) and n.comparators[0].value is None:
            t, _ = self.E(n.left, env)
            return f"(is_none {t})" if isinstance(n.ops[0], ast.Is) else f"(negb (is_none {t}))"
        raise Abort(f"{self.cname}.{self.attr}: unsupported condition: " + src_of(n))

    def block(self, stmts, rest, env, assigned):
        """CPS: translate stmts, then `rest` (a list of statement lists still to run), under env"""
        stmts = [s for s in stmts if not is_docstring(s)]
        if not stmts:
            if rest:
                return self.block(rest[0], rest[1:], env, assigned)
            return f"inl ({env['self._value_type'][0]}, {env['self._a'][0]}, {env['self._b'][0]})"
        st, tail = stmts[0], stmts[1:]
        if isinstance(st, ast.If):
            c = self.C(st.test, env)
            a = self.block(st.body, [tail] + rest, dict(env), assigned)
            b = self.block(st.orelse, [tail] + rest, dict(env), assigned)
            return f"(if {c} then {a}\n   else {b})"
        if isinstance(st, ast.Raise):
            if assigned:
                raise Abort(f"{self.cname}.{self.attr}: raise after an assignment to self.*")
            f = st.exc.func if isinstance(st.exc, ast.Call) else None
            name = f.id if isinstance(f, ast.Name) else None
            if isinstance(st.exc, ast.Call) and src_of(st.exc.func) in ("base.AASConstraintViolation", "AASConstraintViolation") \
                    and st.exc.args and isinstance(st.exc.args[0], ast.Constant) and type(st.exc.args[0].value) is int \
                    and st.cause is None:
                return f"inr (EAASd {st.exc.args[0].value})"
            if name not in ("ValueError", "TypeError") or st.cause is not None:
                raise Abort(f"{self.cname}.{self.attr}: unsupported raise: " + src_of(st))
            return "inr " + ("EValue" if name == "ValueError" else "EType")
        if isinstance(st, (ast.Assign, ast.AnnAssign)):
            tgt = st.target if isinstance(st, ast.AnnAssign) else (st.targets[0] if len(st.targets) == 1 else None)
            val = st.value
            if tgt is None or val is None:
                raise Abort(f"{self.cname}.{self.attr}: unsupported assignment: " + src_of(st))
            if isinstance(tgt, ast.Attribute) and isinstance(tgt.value, ast.Name) and tgt.value.id == "self" \
                    and tgt.attr in self.fields:
                key, is_field = "self." + tgt.attr, True
            elif isinstance(tgt, ast.Name) and tgt.id not in (self.arg, "self"):
                key, is_field = tgt.id, False
            else:
                raise Abort(f"{self.cname}.{self.attr}: unsupported assignment target: " + src_of(tgt))
            want = "ty" if key == "self._value_type" else "val"
            if isinstance(val, ast.Call) and src_of(val.func) == "datatypes.trivial_cast" and len(val.args) == 2 and not val.keywords:
                if assigned:
                    raise Abort(f"{self.cname}.{self.attr}: trivial_cast (can raise) after an assignment to self.*")
                a, sa = self.E(val.args[0], env)
                t, stt = self.E(val.args[1], env)
                if sa not in ("val", None) or stt not in ("ty", None) or want != "val":
                    raise Abort(f"{self.cname}.{self.attr}: ill-sorted trivial_cast: " + src_of(st))
                v = self.fresh("c")
                env = dict(env)
                self.bind(env, key, v, "val")
                body = self.block(tail, rest, env, assigned or is_field)
                return f"(bind_tc (tcast {a} {t}) (fun {v} => {body}))"
            e, s = self.E(val, env)
            if s is not None and s != want and not (not is_field):
                raise Abort(f"{self.cname}.{self.attr}: ill-sorted assignment: " + src_of(st))
            env = dict(env)
            self.bind(env, key, e, s or want)
            return self.block(tail, rest, env, assigned or is_field)
        raise Abort(f"{self.cname}.{self.attr}: unsupported statement: " + src_of(st)[:200])

    def bind(self, env, key, term, sort):
        env[key] = (term, sort)
        if key.startswith("self."):
            f = self.fields[key[5:]]
            env["self._a" if f == "f_a" else "self._b" if f == "f_b" else "self._value_type"] = (term, sort)

    def translate(self, fn):
        env = {"self._value_type": ("f_value_type", "ty"), "self._a": ("f_a", "val"), "self._b": ("f_b", "val")}
        for k, f in self.fields.items():
            env["self." + k] = (f, "ty" if f == "f_value_type" else "val")
        body = self.block(fn.body, [], env, False)
        argty = "option pcls" if self.is_type_arg else "option pyval"
        extra = " (list_other : bool)" if self.is_type_arg else ""
        return (f"Definition set_{self.cname}_{self.attr} (f_value_type : option pcls) (f_a f_b : option pyval){extra} (arg : {argty})\n"
                f"  : (option pcls * option pyval * option pyval) + err :=\n  {body}.\n")


def translate(repo):
    mods = {}
    defs, info = [], {}
    for fname, cname, attr, _ in TARGETS:
        if fname not in mods:
            mods[fname], _src = parse(os.path.join(repo, "sdk/basyx/aas/model", fname))
        fn = find_setter(find_class(mods[fname], cname), attr)
        tr = SetterTr(cname, attr, fn)
        defs.append(tr.translate(fn))
        info[f"{cname}.{attr}"] = {"statements": len(fn.body), "aasd109_guard": tr.uses_guard}
    text = ("(* GENERATED by tools/py2coq/typedsetters.py from sdk/basyx/aas/model/{submodel,base}.py on every run - do not edit. *)\n"
            "From Coq Require Import List ZArith Bool.\n"
            "From Basyx Require Import model.ConstraintsBase model.TypedBase gen.Gen_TypedValues model.TypedValue.\n"
            "Import ListNotations.\n\n" + "\n".join(defs))
    return text, info


def regenerate(repo, gen_dir):
    from common import write_if_changed
    text, info = translate(repo)
    write_if_changed(os.path.join(gen_dir, "Gen_TypedSetters.v"), text)
    return info
