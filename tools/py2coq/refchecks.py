"""Translator: sdk/basyx/aas/model/base.py  KeyTypes + Reference/ExternalReference/ModelReference.__init__
-> coq/theories/gen/Gen_RefChecks.v   (property C02, constraints AASd-121..128).  Fail-closed."""
import ast
import os

from py2coq.c02engine import Abort, BlockTr, parse, find_class, find_func, src_of, exc_default

NUMERIC_METHOD = "isdecimal"     # the only accepted test of Key.value in AASd-128


def _keytypes(cls):
    members, props = [], []
    for st in cls.body:
        if isinstance(st, ast.Expr) and isinstance(st.value, ast.Constant):
            continue
        if isinstance(st, ast.Assign) and len(st.targets) == 1 and isinstance(st.targets[0], ast.Name) \
                and isinstance(st.value, ast.Constant) and type(st.value.value) is int:
            members.append((st.targets[0].id, st.value.value))
            continue
        if isinstance(st, ast.FunctionDef) and len(st.decorator_list) == 1 \
                and isinstance(st.decorator_list[0], ast.Name) and st.decorator_list[0].id == "property" \
                and len(st.body) == 1 and isinstance(st.body[0], ast.Return) \
                and [a.arg for a in st.args.args] == ["self"]:
            props.append((st.name, st.body[0].value))
            continue
        raise Abort("KeyTypes: unsupported class member: " + src_of(st)[:120])
    if len({v for _, v in members}) != len(members):
        raise Abort("KeyTypes: duplicate values (aliases) not supported")
    return members, props


def _kt(name):
    return "KT_" + name


def _prop_expr(node, members, propnames):
    mset = {m for m, _ in members}

    def mem(n):
        if isinstance(n, ast.Attribute) and isinstance(n.value, ast.Name) and n.value.id == "self" and n.attr in mset:
            return _kt(n.attr)
        raise Abort("KeyTypes property: expected self.<MEMBER>: " + src_of(n))

    def go(n):
        if isinstance(n, ast.BoolOp):
            op = " || " if isinstance(n.op, ast.Or) else " && "
            return "(" + op.join(go(v) for v in n.values) + ")"
        if isinstance(n, ast.Compare) and len(n.ops) == 1 and isinstance(n.left, ast.Name) and n.left.id == "self":
            if isinstance(n.ops[0], ast.In) and isinstance(n.comparators[0], ast.Tuple):
                return "(existsb (keytype_beq self) [" + "; ".join(mem(e) for e in n.comparators[0].elts) + "])"
            if isinstance(n.ops[0], ast.Eq):
                return f"(keytype_beq self {mem(n.comparators[0])})"
        if isinstance(n, ast.Attribute) and isinstance(n.value, ast.Name) and n.value.id == "self" \
                and n.attr in propnames:
            return f"({n.attr} self)"
        raise Abort("KeyTypes property: unsupported expression: " + src_of(n))
    return go(node)


class _RefTr:
    def __init__(self, members, propnames):
        self.mset = {m for m, _ in members}
        self.propnames = set(propnames)
        self.scope = []

    # key expressions ------------------------------------------------------------------
    def keyexpr(self, n):
        if isinstance(n, ast.Name) and n.id in self.scope:
            return n.id
        if isinstance(n, ast.Subscript) and isinstance(n.value, ast.Name) and n.value.id == "key":
            ix = n.slice
            if isinstance(ix, ast.Constant) and ix.value == 0:
                return "key_first"
            if isinstance(ix, ast.UnaryOp) and isinstance(ix.op, ast.USub) and isinstance(ix.operand, ast.Constant) \
                    and ix.operand.value == 1:
                return "key_last"
        raise Abort("unsupported key expression: " + src_of(n))

    def member(self, n):
        if isinstance(n, ast.Attribute) and isinstance(n.value, ast.Name) and n.value.id == "KeyTypes" \
                and n.attr in self.mset:
            return _kt(n.attr)
        raise Abort("expected KeyTypes.<MEMBER>: " + src_of(n))

    def ktype_of(self, n):
        if isinstance(n, ast.Attribute) and n.attr == "type":
            return f"(ktype {self.keyexpr(n.value)})"
        raise Abort("expected <key>.type: " + src_of(n))

    def expr(self, n):
        if isinstance(n, ast.UnaryOp) and isinstance(n.op, ast.Not):
            return f"(negb {self.expr(n.operand)})"
        if isinstance(n, ast.BoolOp):
            op = " || " if isinstance(n.op, ast.Or) else " && "
            return "(" + op.join(self.expr(v) for v in n.values) + ")"
        if isinstance(n, ast.Compare) and len(n.ops) == 1:
            l, op, r = n.left, n.ops[0], n.comparators[0]
            if isinstance(l, ast.Call) and isinstance(l.func, ast.Name) and l.func.id == "len" and len(l.args) == 1 \
                    and isinstance(l.args[0], ast.Name) and l.args[0].id == "key" and isinstance(op, ast.Lt) \
                    and isinstance(r, ast.Constant) and type(r.value) is int:
                return f"(len key <? {r.value})"
            if isinstance(op, ast.Eq):
                return f"(keytype_beq {self.ktype_of(l)} {self.member(r)})"
            if isinstance(op, ast.NotIn) and isinstance(r, ast.Tuple):
                return f"(negb (existsb (keytype_beq {self.ktype_of(l)}) [" + \
                       "; ".join(self.member(e) for e in r.elts) + "]))"
        if isinstance(n, ast.Attribute) and n.attr in self.propnames:
            return f"({n.attr} {self.ktype_of(n.value)})"
        if isinstance(n, ast.Call) and not n.args and not n.keywords and isinstance(n.func, ast.Attribute) \
                and n.func.attr == NUMERIC_METHOD and isinstance(n.func.value, ast.Attribute) \
                and n.func.value.attr == "value":
            return f"(knum {self.keyexpr(n.func.value.value)})"
        raise Abort("unsupported condition: " + src_of(n))

    def iterable(self, n):
        def is_key(x):
            return isinstance(x, ast.Name) and x.id == "key"

        def sl(x):   # key[1:] / key[:-1]
            if isinstance(x, ast.Subscript) and is_key(x.value) and isinstance(x.slice, ast.Slice) \
                    and x.slice.step is None:
                lo, hi = x.slice.lower, x.slice.upper
                if isinstance(lo, ast.Constant) and lo.value == 1 and hi is None:
                    return "(tl key)"
                if lo is None and isinstance(hi, ast.UnaryOp) and isinstance(hi.op, ast.USub) \
                        and isinstance(hi.operand, ast.Constant) and hi.operand.value == 1:
                    return "(removelast key)"
            return None
        s = sl(n)
        if s:
            return s
        if isinstance(n, ast.Call) and isinstance(n.func, ast.Name) and n.func.id == "zip" and len(n.args) == 2 \
                and is_key(n.args[0]) and sl(n.args[1]) == "(tl key)":
            return "(combine key (tl key))"
        raise Abort("unsupported iterable: " + src_of(n))

    @staticmethod
    def ignorable(st):
        if isinstance(st, ast.AnnAssign) and st.value is None:
            return True
        if isinstance(st, ast.Expr) and isinstance(st.value, ast.Call) and isinstance(st.value.func, ast.Attribute) \
                and st.value.func.attr == "__setattr__":
            c = st.value
            tgt = c.func.value
            if isinstance(tgt, ast.Call) and isinstance(tgt.func, ast.Name) and tgt.func.id == "super" \
                    and len(c.args) == 2 and isinstance(c.args[0], ast.Constant) and isinstance(c.args[1], ast.Name):
                return True
            if isinstance(tgt, ast.Name) and tgt.id == "object" and len(c.args) == 3 \
                    and isinstance(c.args[1], ast.Constant) and isinstance(c.args[2], ast.Name):
                return True
        return False

    def wrap(self, node, coq):
        """bind key[0] / key[-1] used in `node` (IndexError on an empty tuple, as in Python)"""
        used = set()
        for sub in ast.walk(node):
            if isinstance(sub, ast.Subscript) and isinstance(sub.value, ast.Name) and sub.value.id == "key" \
                    and not isinstance(sub.slice, ast.Slice):
                used.add(self.keyexpr(sub))
        if "key_last" in used:
            coq = f"with_last key EIndex (fun key_last => {coq})"
        if "key_first" in used:
            coq = f"with_first key EIndex (fun key_first => {coq})"
        return coq


def translate(repo):
    path = os.path.join(repo, "sdk/basyx/aas/model/base.py")
    mod, _ = parse(path)
    members, props = _keytypes(find_class(mod, "KeyTypes"))
    propnames = [p for p, _ in props]
    out = ["(* GENERATED by tools/py2coq/refchecks.py from sdk/basyx/aas/model/base.py - do not edit. *)",
           "From Coq Require Import List ZArith Bool.",
           "From Basyx Require Import model.ConstraintsBase.",
           "Import ListNotations.",
           "Local Open Scope Z_scope.",
           "",
           "Inductive keytype : Type :=\n" + "\n".join(f"| {_kt(m)}" for m, _ in members) + ".",
           "Scheme Equality for keytype.",
           "Definition all_keytypes : list keytype := [" + "; ".join(_kt(m) for m, _ in members) + "].",
           "Definition keytype_value (k : keytype) : Z :=\n  match k with\n"
           + "\n".join(f"  | {_kt(m)} => {v}" for m, v in members) + "\n  end.",
           ""]
    for name, body in props:
        out.append(f"Definition {name} (self : keytype) : bool :=\n  {_prop_expr(body, members, set(propnames))}.")
    out.append("")
    out.append("Definition K := key keytype.")

    ref_init = find_func(find_class(mod, "Reference").body, "__init__")
    if [a.arg for a in ref_init.args.args][:2] != ["self", "key"]:
        raise Abort("Reference.__init__: unexpected parameters")

    def make(clsname, fname):
        tr = _RefTr(members, propnames)
        fn = find_func(find_class(mod, clsname).body, "__init__")
        if [a.arg for a in fn.args.args][:2] != ["self", "key"]:
            raise Abort(f"{clsname}.__init__: unexpected parameters")

        def special(st):
            # super().__init__(key, referred_semantic_id)  ->  the base-class checks, inlined
            if isinstance(st, ast.Expr) and isinstance(st.value, ast.Call) and isinstance(st.value.func, ast.Attribute) \
                    and st.value.func.attr == "__init__" and isinstance(st.value.func.value, ast.Call) \
                    and isinstance(st.value.func.value.func, ast.Name) and st.value.func.value.func.id == "super":
                a = st.value.args
                if len(a) == 2 and isinstance(a[0], ast.Name) and a[0].id == "key":
                    return bt.block(ref_init.body)
                raise Abort("unexpected super().__init__ call: " + src_of(st))
            if isinstance(st, ast.For):
                # loop variables come into scope for the body
                tgts = [st.target] if isinstance(st.target, ast.Name) else list(getattr(st.target, "elts", []))
                names = [t.id for t in tgts if isinstance(t, ast.Name)]
                tr.scope.extend(names)
                try:
                    return BlockTr.stmt(bt_inner, st)
                finally:
                    for _ in names:
                        tr.scope.pop()
            return None
        bt = BlockTr(tr.expr, tr.iterable, exc_default, tr.ignorable, tr.wrap, special)
        bt_inner = BlockTr(tr.expr, tr.iterable, exc_default, tr.ignorable, tr.wrap, None)
        # nested statements of a loop body must go through `special` again (scoping of inner loops)
        bt_inner.block = bt.block
        body = bt.block(fn.body)
        return f"Definition {fname} (key : list K) : option err :=\n  {body}."
    out.append(make("ExternalReference", "ext_ref_check"))
    out.append(make("ModelReference", "model_ref_check"))
    out.append("")
    return "\n\n".join(out) + "\n", {"members": members, "props": propnames}


def regenerate(repo, gen_dir):
    from common import write_if_changed
    text, info = translate(repo)
    write_if_changed(os.path.join(gen_dir, "Gen_RefChecks.v"), text)
    return info
