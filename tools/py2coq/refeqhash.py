"""Tie T for C07 (value objects): translate, fail-closed, the bodies of __eq__, __hash__ and __setattr__ of
Key, Reference and SpecificAssetId (sdk/basyx/aas/model/base.py) into coq/theories/gen/Gen_RefEqHash.v:
the attributes compared by ==, whether == demands isinstance(other, self.__class__), the attributes (and
possibly __class__) that enter hash(), and the attribute names that __setattr__ lets through."""
import ast
import os

import common
from py2coq import TranslationError

OUT = os.path.join(common.GEN, "Gen_RefEqHash.v")
CLASSES = ["Key", "Reference", "SpecificAssetId"]


def _body(fn):
    b = fn.body
    if b and isinstance(b[0], ast.Expr) and isinstance(b[0].value, ast.Constant) and isinstance(b[0].value.value, str):
        b = b[1:]
    return b


def _self_attr(e, who="self"):
    if isinstance(e, ast.Attribute) and isinstance(e.value, ast.Name) and e.value.id == who:
        return e.attr
    return None


def _eq(cname, fn):
    b = _body(fn)
    if len(fn.args.args) != 2 or fn.args.args[1].arg != "other":
        raise TranslationError(f"{cname}.__eq__: unexpected signature")
    # 1. isinstance guard
    g = b[0]
    ok = (isinstance(g, ast.If) and isinstance(g.test, ast.UnaryOp) and isinstance(g.test.op, ast.Not)
          and isinstance(g.test.operand, ast.Call) and isinstance(g.test.operand.func, ast.Name)
          and g.test.operand.func.id == "isinstance" and len(g.test.operand.args) == 2
          and isinstance(g.test.operand.args[0], ast.Name) and g.test.operand.args[0].id == "other"
          and len(g.body) == 1 and isinstance(g.body[0], ast.Return) and isinstance(g.body[0].value, ast.Name)
          and g.body[0].value.id == "NotImplemented" and not g.orelse)
    if not ok:
        raise TranslationError(f"{cname}.__eq__: first statement is not the isinstance guard")
    k = g.test.operand.args[1]
    if isinstance(k, ast.Name) and k.id == cname:
        same_class = False
    elif _self_attr(k) == "__class__":
        same_class = True
    else:
        raise TranslationError(f"{cname}.__eq__: isinstance against {ast.dump(k)}")
    rest = b[1:]
    len_checked = set()
    while len(rest) > 1:
        st = rest[0]
        # if len(self.f) != len(other.f): return False
        ok = (isinstance(st, ast.If) and isinstance(st.test, ast.Compare) and len(st.test.ops) == 1
              and isinstance(st.test.ops[0], ast.NotEq) and isinstance(st.test.left, ast.Call)
              and isinstance(st.test.left.func, ast.Name) and st.test.left.func.id == "len"
              and isinstance(st.test.comparators[0], ast.Call) and isinstance(st.test.comparators[0].func, ast.Name)
              and st.test.comparators[0].func.id == "len" and len(st.body) == 1 and isinstance(st.body[0], ast.Return)
              and isinstance(st.body[0].value, ast.Constant) and st.body[0].value.value is False and not st.orelse)
        if not ok:
            raise TranslationError(f"{cname}.__eq__: unsupported statement at line {st.lineno}")
        f1, f2 = _self_attr(st.test.left.args[0]), _self_attr(st.test.comparators[0].args[0], "other")
        if f1 is None or f1 != f2:
            raise TranslationError(f"{cname}.__eq__: len() guard over different attributes")
        len_checked.add(f1)
        rest = rest[1:]
    if not (len(rest) == 1 and isinstance(rest[0], ast.Return)):
        raise TranslationError(f"{cname}.__eq__: does not end in a return")
    e = rest[0].value
    parts = e.values if isinstance(e, ast.BoolOp) and isinstance(e.op, ast.And) else [e]
    fields = []
    for p in parts:
        if isinstance(p, ast.Compare) and len(p.ops) == 1 and isinstance(p.ops[0], ast.Eq):
            f1, f2 = _self_attr(p.left), _self_attr(p.comparators[0], "other")
            if f1 is None or f1 != f2:
                raise TranslationError(f"{cname}.__eq__: comparison of different attributes")
            fields.append(f1)
            continue
        # all(k1 == k2 for k1, k2 in zip(self.f, other.f))   (with the len() guard = tuple equality)
        if (isinstance(p, ast.Call) and isinstance(p.func, ast.Name) and p.func.id == "all" and len(p.args) == 1
                and isinstance(p.args[0], ast.GeneratorExp) and len(p.args[0].generators) == 1):
            ge = p.args[0]
            gen = ge.generators[0]
            okg = (isinstance(ge.elt, ast.Compare) and len(ge.elt.ops) == 1 and isinstance(ge.elt.ops[0], ast.Eq)
                   and isinstance(gen.target, ast.Tuple) and len(gen.target.elts) == 2 and not gen.ifs
                   and isinstance(gen.iter, ast.Call) and isinstance(gen.iter.func, ast.Name) and gen.iter.func.id == "zip"
                   and len(gen.iter.args) == 2
                   and isinstance(ge.elt.left, ast.Name) and isinstance(ge.elt.comparators[0], ast.Name)
                   and [ge.elt.left.id, ge.elt.comparators[0].id] == [x.id for x in gen.target.elts])
            if okg:
                f1, f2 = _self_attr(gen.iter.args[0]), _self_attr(gen.iter.args[1], "other")
                if f1 is not None and f1 == f2 and f1 in len_checked:
                    fields.append(f1)
                    continue
        raise TranslationError(f"{cname}.__eq__: unsupported conjunct {ast.dump(p)[:120]}")
    if len_checked - set(fields):
        raise TranslationError(f"{cname}.__eq__: len() guard without element comparison")
    return fields, same_class


def _hash(cname, fn):
    b = _body(fn)
    if not (len(b) == 1 and isinstance(b[0], ast.Return) and isinstance(b[0].value, ast.Call)
            and isinstance(b[0].value.func, ast.Name) and b[0].value.func.id == "hash" and len(b[0].value.args) == 1
            and isinstance(b[0].value.args[0], ast.Tuple)):
        raise TranslationError(f"{cname}.__hash__: not `return hash((...))`")
    fields = []
    for e in b[0].value.args[0].elts:
        f = _self_attr(e)
        if f is None:
            raise TranslationError(f"{cname}.__hash__: component is not an attribute of self")
        fields.append(f)
    return fields


def _setattr(cname, fn):
    b = _body(fn)
    if [a.arg for a in fn.args.args] != ["self", "key", "value"]:
        raise TranslationError(f"{cname}.__setattr__: unexpected signature")
    allowed = []
    if len(b) == 2:
        st = b[0]
        if not (isinstance(st, ast.If) and not st.orelse and len(st.body) == 1 and isinstance(st.body[0], ast.Return)):
            raise TranslationError(f"{cname}.__setattr__: unsupported first statement")
        t = st.test
        parts = t.values if isinstance(t, ast.BoolOp) and isinstance(t.op, ast.Or) else [t]

        def keyeq(e):
            if (isinstance(e, ast.Compare) and len(e.ops) == 1 and isinstance(e.ops[0], ast.Eq) and isinstance(e.left, ast.Name)
                    and e.left.id == "key" and isinstance(e.comparators[0], ast.Constant)
                    and isinstance(e.comparators[0].value, str)):
                return e.comparators[0].value
            return None
        for p in parts:
            k = keyeq(p)
            if k is not None:
                allowed.append((k, False))
                continue
            if isinstance(p, ast.BoolOp) and isinstance(p.op, ast.And) and len(p.values) == 2:
                k = keyeq(p.values[0])
                v = p.values[1]
                if (k is not None and isinstance(v, ast.Compare) and len(v.ops) == 1 and isinstance(v.ops[0], ast.Is)
                        and isinstance(v.left, ast.Name) and v.left.id == "value"
                        and isinstance(v.comparators[0], ast.Constant) and v.comparators[0].value is None):
                    allowed.append((k, True))
                    continue
            raise TranslationError(f"{cname}.__setattr__: unsupported condition {ast.dump(p)[:120]}")
        b = b[1:]
    if not (len(b) == 1 and isinstance(b[0], ast.Raise) and isinstance(b[0].exc, ast.Call)
            and isinstance(b[0].exc.func, ast.Name) and b[0].exc.func.id == "AttributeError"):
        raise TranslationError(f"{cname}.__setattr__: does not end in `raise AttributeError(...)`")
    return allowed


def facts():
    p = os.path.join(common.REPO, "sdk", "basyx", "aas", "model", "base.py")
    tree = ast.parse(open(p).read(), p)
    res = {}
    for node in tree.body:
        if isinstance(node, ast.ClassDef) and node.name in CLASSES:
            fns = {st.name: st for st in node.body if isinstance(st, ast.FunctionDef)}
            for m in ("__eq__", "__hash__", "__setattr__"):
                if m not in fns:
                    raise TranslationError(f"{node.name}.{m} not found")
            eqf, same = _eq(node.name, fns["__eq__"])
            res[node.name] = {"eq": eqf, "same_class": same, "hash": _hash(node.name, fns["__hash__"]),
                              "allowed": _setattr(node.name, fns["__setattr__"])}
    for c in CLASSES:
        if c not in res:
            raise TranslationError(f"class {c} not found")
    return res


def render(f):
    def sl(xs):
        return "[" + "; ".join(f'"{x}"' for x in xs) + "]"
    o = ["(* GENERATED by tools/py2coq/refeqhash.py from sdk/basyx/aas/model/base.py (Key, Reference, SpecificAssetId:",
         "   __eq__, __hash__, __setattr__) on every run of the C07 check.  Do not edit. *)",
         "From Coq Require Import List String Bool.", "Import ListNotations.", "Local Open Scope string_scope.", "",
         "Inductive vclass : Set := " + " | ".join(f"V_{c}" for c in CLASSES) + ".",
         "Definition all_vclasses : list vclass := [" + "; ".join(f"V_{c}" for c in CLASSES) + "]."]
    o.append("(* attributes compared by __eq__ *)\nDefinition eq_fields (c : vclass) : list string :=\n  match c with\n"
             + "\n".join(f"  | V_{c} => {sl(f[c]['eq'])}" for c in CLASSES) + "\n  end.")
    o.append("(* __eq__ answers NotImplemented unless isinstance(other, self.__class__) (true) / isinstance(other, <the class>) (false) *)\n"
             "Definition eq_same_class (c : vclass) : bool :=\n  match c with\n"
             + "\n".join(f"  | V_{c} => {'true' if f[c]['same_class'] else 'false'}" for c in CLASSES) + "\n  end.")
    o.append("(* components of the tuple given to hash() *)\nDefinition hash_fields (c : vclass) : list string :=\n  match c with\n"
             + "\n".join(f"  | V_{c} => {sl(f[c]['hash'])}" for c in CLASSES) + "\n  end.")
    o.append("(* attribute names __setattr__ lets through (name, only when the value is None); everything else raises AttributeError *)\n"
             "Definition setattr_allowed (c : vclass) : list (string * bool) :=\n  match c with\n"
             + "\n".join("  | V_%s => [%s]" % (c, "; ".join(f'("{k}", {"true" if n else "false"})' for k, n in f[c]["allowed"]))
                         for c in CLASSES) + "\n  end.")
    return "\n".join(o) + "\n"


def regenerate():
    f = facts()
    changed = common.write_if_changed(OUT, render(f))
    return f"Gen_RefEqHash.v {'rewritten' if changed else 'unchanged'}: " + ", ".join(
        f"{c}: eq{f[c]['eq']} hash{f[c]['hash']}" for c in CLASSES)
