"""Translator: sdk/basyx/aas/model/_string_constraints.py (+ the ConstrainedLangStringSet subclasses and
Referable.validate_id_short in base.py) -> coq/theories/gen/Gen_StrConstraints.v  (property C02).
Fail-closed: every construct outside the grammar below aborts.

  AASD130_RE = re.compile("<regex literal>")
  def check(value, type_name, min_length=0, max_length=None, pattern=None): four `if ...: raise ValueError`
  def check_X(value, type_name="X"): return check(value, type_name, a, b[, re.compile(r"..")]) | return check_Y(value, type_name)
  def constrain_X(pub_attr_name): return constrain_attr(pub_attr_name, check_X)
  constrain_attr: pinned source text (modelled by hand in model/ConstraintsStr.v: None skips the check)
  regex literals: literals, [classes with ranges], ( ), |, *    (no escapes, anchors, ., ?, +, {})
"""
import ast
import os

from py2coq.c02engine import Abort, BlockTr, parse, find_class, find_func, src_of, exc_default, int_const, coq_z

# ---------------------------------------------------------------- regex literal -> re term


def parse_regex(s):
    """returns (coq_term, py_tree) ; py_tree: ('cls',[(lo,hi)]) ('alt',a,b) ('cat',a,b) ('star',a) ('eps',)"""
    pos = [0]
    special = set("\\^$.?+{}")

    def peek():
        return s[pos[0]] if pos[0] < len(s) else None

    def eat():
        c = s[pos[0]]
        pos[0] += 1
        return c

    def alt():
        a = cat()
        while peek() == "|":
            eat()
            b = cat()
            a = ("alt", a, b)
        return a

    def cat():
        items = []
        while peek() is not None and peek() not in "|)":
            items.append(rep())
        if not items:
            return ("eps",)
        r = items[-1]
        for it in reversed(items[:-1]):
            r = ("cat", it, r)
        return r

    def rep():
        a = atom()
        while peek() == "*":
            eat()
            a = ("star", a)
        if peek() is not None and peek() in "?+{":
            raise Abort(f"regex: unsupported quantifier {peek()!r} in {s!r}")
        return a

    def atom():
        c = peek()
        if c == "(":
            eat()
            if peek() == "?":
                raise Abort("regex: (?...) groups unsupported")
            a = alt()
            if peek() != ")":
                raise Abort("regex: missing )")
            eat()
            return a
        if c == "[":
            eat()
            if peek() == "^":
                raise Abort("regex: negated class unsupported")
            ranges = []
            while True:
                if peek() is None:
                    raise Abort("regex: unterminated class")
                if peek() == "]" and ranges:
                    eat()
                    break
                lo = eat()
                if lo in "\\[":
                    raise Abort("regex: escapes / nested classes unsupported")
                if peek() == "-" and pos[0] + 1 < len(s) and s[pos[0] + 1] != "]":
                    eat()
                    hi = eat()
                    if hi in "\\[":
                        raise Abort("regex: escapes unsupported")
                    if ord(hi) < ord(lo):
                        raise Abort("regex: bad range")
                    ranges.append((ord(lo), ord(hi)))
                else:
                    ranges.append((ord(lo), ord(lo)))
            return ("cls", ranges)
        if c in special or c in "*|)":
            raise Abort(f"regex: unsupported character {c!r} in {s!r}")
        eat()
        return ("cls", [(ord(c), ord(c))])

    tree = alt()
    if pos[0] != len(s):
        raise Abort(f"regex: trailing input in {s!r}")
    return coq_re(tree), tree


def coq_re(t):
    k = t[0]
    if k == "eps":
        return "REps"
    if k == "cls":
        return "(RCls [" + "; ".join(f"({lo}, {hi})" for lo, hi in t[1]) + "])"
    if k == "star":
        return f"(RStar {coq_re(t[1])})"
    return f"({'RAlt' if k == 'alt' else 'RCat'} {coq_re(t[1])} {coq_re(t[2])})"


def _re_compile_arg(n):
    """re.compile(<str literal>) -> literal"""
    if isinstance(n, ast.Call) and isinstance(n.func, ast.Attribute) and n.func.attr == "compile" \
            and isinstance(n.func.value, ast.Name) and n.func.value.id == "re" and len(n.args) == 1 \
            and not n.keywords and isinstance(n.args[0], ast.Constant) and isinstance(n.args[0].value, str):
        return n.args[0].value
    raise Abort("expected re.compile(<string literal>): " + src_of(n))


# ---------------------------------------------------------------- check()

def _check_body(fn):
    a = fn.args
    if [x.arg for x in a.args] != ["value", "type_name", "min_length", "max_length", "pattern"] or a.vararg or a.kwarg:
        raise Abort("check(): unexpected parameters")
    d = a.defaults
    if not (len(d) == 3 and isinstance(d[0], ast.Constant) and d[0].value == 0
            and all(isinstance(x, ast.Constant) and x.value is None for x in d[1:])):
        raise Abort("check(): unexpected defaults")

    def is_len_value(n):
        return isinstance(n, ast.Call) and isinstance(n.func, ast.Name) and n.func.id == "len" \
            and len(n.args) == 1 and isinstance(n.args[0], ast.Name) and n.args[0].id == "value"

    def fullmatch(n):
        """X.fullmatch(value) -> X name"""
        if isinstance(n, ast.Call) and isinstance(n.func, ast.Attribute) and n.func.attr == "fullmatch" \
                and isinstance(n.func.value, ast.Name) and len(n.args) == 1 and isinstance(n.args[0], ast.Name) \
                and n.args[0].id == "value" and not n.keywords:
            return n.func.value.id
        return None

    def expr(n, bound=()):
        if isinstance(n, ast.BoolOp) and isinstance(n.op, ast.And) and len(n.values) == 2:
            g, rest = n.values
            if isinstance(g, ast.Compare) and len(g.ops) == 1 and isinstance(g.ops[0], ast.IsNot) \
                    and isinstance(g.left, ast.Name) and g.left.id in ("max_length", "pattern") \
                    and isinstance(g.comparators[0], ast.Constant) and g.comparators[0].value is None:
                v = g.left.id
                return f"(match {v} with Some {v}_ => {expr(rest, bound + (v,))} | None => false end)"
        if isinstance(n, ast.UnaryOp) and isinstance(n.op, ast.Not):
            return f"(negb {expr(n.operand, bound)})"
        if isinstance(n, ast.Compare) and len(n.ops) == 1 and is_len_value(n.left) \
                and isinstance(n.comparators[0], ast.Name):
            r = n.comparators[0].id
            if isinstance(n.ops[0], ast.Lt) and r == "min_length":
                return "(len value <? min_length)"
            if isinstance(n.ops[0], ast.Gt) and r == "max_length" and "max_length" in bound:
                return "(len value >? max_length_)"
        fm = fullmatch(n)
        if fm == "AASD130_RE":
            return "(matchb AASD130_RE value)"
        if fm == "pattern" and "pattern" in bound:
            return "(matchb pattern_ value)"
        raise Abort("check(): unsupported condition: " + src_of(n))

    def no_iter(n):
        raise Abort("check(): loops not expected")
    bt = BlockTr(expr, no_iter, exc_default, lambda st: False)
    return bt.block(fn.body)


PINNED_CONSTRAIN_ATTR = '''def _setter(self, value: Optional[str]) -> None:
    if value is not None:
        constraint_check_fn(value)
    setattr(self, '_' + pub_attr_name, value)'''


def translate(repo):
    mod, _ = parse(os.path.join(repo, "sdk/basyx/aas/model/_string_constraints.py"))
    out = ["(* GENERATED by tools/py2coq/strconstraints.py from sdk/basyx/aas/model/_string_constraints.py and base.py"
           " - do not edit. *)",
           "From Coq Require Import List ZArith Bool.", "From Basyx Require Import model.ConstraintsBase.",
           "Import ListNotations.", "Local Open Scope Z_scope.", ""]
    info = {"checks": {}, "decorators": {}, "lss": {}, "regex_trees": {}}
    # AASD130_RE
    lit = None
    for n in mod.body:
        if isinstance(n, ast.Assign) and len(n.targets) == 1 and isinstance(n.targets[0], ast.Name) \
                and n.targets[0].id == "AASD130_RE":
            lit = _re_compile_arg(n.value)
    if lit is None:
        raise Abort("AASD130_RE not found")
    term, tree = parse_regex(lit)
    info["regex_trees"]["AASD130_RE"] = tree
    out.append(f"Definition AASD130_RE : re := {term}.")
    out.append("Definition check (value : list Z) (min_length : Z) (max_length : option Z) (pattern : option re)"
               " : option err :=\n  " + _check_body(find_func(mod.body, "check")) + ".")
    # check_X functions
    fns = [n for n in mod.body if isinstance(n, ast.FunctionDef)]
    check_names = []
    pending = []
    for fn in fns:
        if not fn.name.startswith("check_"):
            continue
        if [x.arg for x in fn.args.args] != ["value", "type_name"] or len(fn.body) != 1 \
                or not isinstance(fn.body[0], ast.Return) or not isinstance(fn.body[0].value, ast.Call):
            raise Abort(f"{fn.name}: unexpected shape")
        call = fn.body[0].value
        if not isinstance(call.func, ast.Name) or call.keywords:
            raise Abort(f"{fn.name}: unexpected call")
        args = call.args
        if len(args) < 2 or not (isinstance(args[0], ast.Name) and args[0].id == "value"
                                 and isinstance(args[1], ast.Name) and args[1].id == "type_name"):
            raise Abort(f"{fn.name}: first arguments must be (value, type_name)")
        if call.func.id == "check":
            if len(args) not in (4, 5):
                raise Abort(f"{fn.name}: expected check(value, type_name, min, max[, pattern])")
            mn, mx = int_const(args[2]), int_const(args[3])
            pat = "None"
            if len(args) == 5:
                plit = _re_compile_arg(args[4])
                pterm, ptree = parse_regex(plit)
                info["regex_trees"][fn.name] = ptree
                pat = f"(Some {pterm})"
                out.append(f"Definition pattern_{fn.name} : re := {pterm}.")
                pat = f"(Some pattern_{fn.name})"
            pending.append((fn.name, f"check value {coq_z(mn)} (Some {coq_z(mx)}) {pat}"))
            info["checks"][fn.name] = {"min": mn, "max": mx, "pattern": len(args) == 5}
        elif call.func.id.startswith("check_") and len(args) == 2:
            pending.append((fn.name, f"{call.func.id} value"))
            info["checks"][fn.name] = {"alias": call.func.id}
        else:
            raise Abort(f"{fn.name}: unexpected callee {call.func.id}")
        check_names.append(fn.name)
    # emit in dependency order (aliases after their targets)
    emitted = set()
    while pending:
        progress = False
        for item in list(pending):
            name, body = item
            dep = body.split()[0]
            if dep == "check" or dep in emitted:
                out.append(f"Definition {name} (value : list Z) : option err := {body}.")
                emitted.add(name)
                pending.remove(item)
                progress = True
        if not progress:
            raise Abort("cyclic check_ aliases")
    # constrain_attr pinned, constrain_X table
    ca = find_func(mod.body, "constrain_attr")
    dec = find_func(ca.body, "decorator_fn")
    setter = find_func(dec.body, "_setter")
    if ast.unparse(setter) != PINNED_CONSTRAIN_ATTR:
        raise Abort("constrain_attr._setter differs from the modelled text:\n" + ast.unparse(setter))
    reg = [s for s in dec.body if isinstance(s, ast.Expr)]
    if not any("setattr(decorated_class, pub_attr_name, property(_getter, _setter))" == ast.unparse(s) for s in reg):
        raise Abort("constrain_attr no longer installs property(_getter, _setter)")
    for fn in fns:
        if fn.name.startswith("constrain_") and fn.name != "constrain_attr":
            if len(fn.body) != 1 or not isinstance(fn.body[0], ast.Return):
                raise Abort(f"{fn.name}: unexpected shape")
            c = fn.body[0].value
            if not (isinstance(c, ast.Call) and isinstance(c.func, ast.Name) and c.func.id == "constrain_attr"
                    and len(c.args) == 2 and isinstance(c.args[0], ast.Name) and c.args[0].id == "pub_attr_name"
                    and isinstance(c.args[1], ast.Name) and c.args[1].id in check_names):
                raise Abort(f"{fn.name}: unexpected body")
            info["decorators"][fn.name] = c.args[1].id

    # ---- base.py: ConstrainedLangStringSet subclasses, validate_id_short
    bmod, _ = parse(os.path.join(repo, "sdk/basyx/aas/model/base.py"))
    for c in bmod.body:
        if isinstance(c, ast.ClassDef) and any(isinstance(b, ast.Name) and b.id == "ConstrainedLangStringSet"
                                               for b in c.bases):
            init = find_func(c.body, "__init__")
            st = [s for s in init.body if not (isinstance(s, ast.Expr) and isinstance(s.value, ast.Constant))]
            ok = (len(st) == 1 and isinstance(st[0], ast.Expr) and isinstance(st[0].value, ast.Call)
                  and ast.unparse(st[0].value.func) == "super().__init__" and len(st[0].value.args) == 2
                  and isinstance(st[0].value.args[0], ast.Name) and st[0].value.args[0].id == "dict_")
            if not ok:
                raise Abort(f"{c.name}.__init__: unexpected shape")
            f = st[0].value.args[1]
            if isinstance(f, ast.Attribute) and ast.unparse(f.value) == "_string_constraints" and f.attr in check_names:
                body = f"{f.attr} value"
                info["lss"][c.name] = dict(info["checks"][f.attr], via=f.attr)
            elif isinstance(f, ast.Call) and ast.unparse(f.func) == "_string_constraints.create_check_function" \
                    and not f.args and {k.arg for k in f.keywords} <= {"min_length", "max_length"}:
                kw = {k.arg: int_const(k.value) for k in f.keywords}
                mn = kw.get("min_length", 0)
                mx = f"(Some {coq_z(kw['max_length'])})" if "max_length" in kw else "None"
                body = f"check value {coq_z(mn)} {mx} None"
                info["lss"][c.name] = {"min": mn, "max": kw.get("max_length")}
            else:
                raise Abort(f"{c.name}: unsupported constraint function: " + src_of(f))
            out.append(f"Definition lss_check_{c.name} (value : list Z) : option err := {body}.")
    ccf = find_func(mod.body, "create_check_function")
    inner = find_func(ccf.body, "check_fn")
    if ast.unparse(inner.body[0]) != "return check(value, type_name, min_length, max_length, pattern)":
        raise Abort("create_check_function.check_fn: unexpected body")

    # validate_id_short
    ref = find_class(bmod, "Referable")
    v = find_func(ref.body, "validate_id_short")
    st = [s for s in v.body if not (isinstance(s, ast.Expr) and isinstance(s.value, ast.Constant))]
    if len(st) != 4:
        raise Abort("validate_id_short: expected 4 statements")
    if ast.unparse(st[0]) != "_string_constraints.check_name_type(id_short)":
        raise Abort("validate_id_short: statement 1: " + src_of(st[0]))
    if ast.unparse(st[1]) != "test_id_short: NameType = str(id_short)":
        raise Abort("validate_id_short: statement 2: " + src_of(st[1]))
    s2, s3 = st[2], st[3]

    def raise2(s):
        return (isinstance(s, ast.If) and not s.orelse and len(s.body) == 1 and isinstance(s.body[0], ast.Raise)
                and exc_default(s.body[0].exc))
    e2, e3 = raise2(s2), raise2(s3)
    if not e2 or not e3:
        raise Abort("validate_id_short: if/raise expected")
    t2 = s2.test
    if not (isinstance(t2, ast.UnaryOp) and isinstance(t2.op, ast.Not) and isinstance(t2.operand, ast.Call)
            and ast.unparse(t2.operand.func) == "re.fullmatch" and len(t2.operand.args) == 2
            and isinstance(t2.operand.args[0], ast.Constant) and ast.unparse(t2.operand.args[1]) == "test_id_short"):
        raise Abort("validate_id_short: statement 3: " + src_of(s2))
    idterm, idtree = parse_regex(t2.operand.args[0].value)
    info["regex_trees"]["IDSHORT_RE"] = idtree
    if ast.unparse(s3.test) != "not test_id_short[0].isalpha()":
        raise Abort("validate_id_short: statement 4: " + src_of(s3))
    out.append(f"Definition IDSHORT_RE : re := {idterm}.")
    out.append("(* str.isalpha of the first code point is a parameter (Unicode table not modelled) *)")
    out.append("Definition validate_id_short (isalpha : Z -> bool) (id_short : list Z) : option err :=\n"
               "  seqs [check_name_type id_short;\n"
               f"        when (negb (matchb IDSHORT_RE id_short)) (Some ({e2}));\n"
               f"        with_first id_short EIndex (fun c0 => when (negb (isalpha c0)) (Some ({e3})))].")
    names = check_names + ["lss_check_" + c for c in info["lss"]]
    info["string_checks"] = names
    out.append("Definition string_checks : list (list Z -> option err) :=\n  ["
               + "; ".join(names) + "].")
    return "\n".join(out) + "\n", info


def scan_decorated(repo):
    """(module file, class, attribute, check function) for every @_string_constraints.constrain_X("attr")"""
    res = []
    d = os.path.join(repo, "sdk/basyx/aas/model")
    for fn in sorted(os.listdir(d)):
        if not fn.endswith(".py"):
            continue
        mod, _ = parse(os.path.join(d, fn))
        for c in ast.walk(mod):
            if isinstance(c, ast.ClassDef):
                for dec in c.decorator_list:
                    if isinstance(dec, ast.Call) and isinstance(dec.func, ast.Attribute) \
                            and dec.func.attr.startswith("constrain_") and len(dec.args) == 1 \
                            and isinstance(dec.args[0], ast.Constant):
                        res.append((fn, c.name, dec.args[0].value, dec.func.attr))
    return res


def regenerate(repo, gen_dir):
    from common import write_if_changed
    text, info = translate(repo)
    write_if_changed(os.path.join(gen_dir, "Gen_StrConstraints.v"), text)
    info["decorated"] = scan_decorated(repo)
    return info
