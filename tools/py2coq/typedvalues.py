"""Translator: sdk/basyx/aas/model/datatypes.py (class statements, aliases, XSD_TYPE_NAMES keys, trivial_cast(),
NormalizedString.__new__) -> coq/theories/gen/Gen_TypedValues.v   (property C02: typed values).  Fail-closed.

Emitted:
  direct_base : pcls -> option pcls     the single-inheritance table of the XSD classes (class X(B) statements; aliases
                                        X = b make X *be* b; two CPython facts are added and marked: bool < int,
                                        datetime.datetime < datetime.date)
  subcls, isinst                        issubclass / isinstance over that table
  xsd_types : list pcls                 the keys of XSD_TYPE_NAMES, in source order
  trivial_cast_gen : pcls -> pcls -> tc_act      the decision structure of trivial_cast(value, type_)
  normalized_string_forbidden : list Z  the characters NormalizedString.__new__ refuses

Grammar accepted for trivial_cast's body (anything else aborts):
  S ::= if C: raise TypeError(...) | if C: return value | if C: return type_(value)
      | if C: return Date(value.year, value.month, value.day)
      | for <v> in (X, ...): if C: return type_(value)          (unrolled)
      | raise TypeError(...)                                    (last statement)
  C ::= C and C | C or C | not C | isinstance(value, X) | issubclass(type_, X) | type_ is X | type_ is not X
  X ::= a class name of datatypes.py | int | float | str | bool | bytes | bytearray | datetime.date | datetime.datetime
      | (X, ...) | type_ | <v>
"""
import ast
import os

from py2coq.c02engine import Abort, parse, find_class, find_func, src_of, is_docstring

XSD = ["Duration", "DateTime", "Date", "Time", "GYearMonth", "GYear", "GMonthDay", "GMonth", "GDay", "Boolean",
       "Base64Binary", "HexBinary", "Float", "Double", "Decimal", "Integer", "Long", "Int", "Short", "Byte",
       "NonPositiveInteger", "NegativeInteger", "NonNegativeInteger", "PositiveInteger", "UnsignedLong", "UnsignedInt",
       "UnsignedShort", "UnsignedByte", "AnyURI", "String", "NormalizedString"]
# Python classes that are no XSD class of the module
FIXED = {"datetime.date": "KPyDate", "bytes": "KPyBytes", "bytearray": "KPyBytearray"}
# CPython facts about built-in classes (trusted): child -> parent
STDLIB_BASE = {"bool": "int", "datetime.datetime": "datetime.date"}


def dotted(n):
    if isinstance(n, ast.Name):
        return n.id
    if isinstance(n, ast.Attribute):
        return dotted(n.value) + "." + n.attr
    raise Abort("not a dotted name: " + src_of(n))


class Tr:
    def __init__(self, mod):
        self.mod = mod
        self.alias = {}      # XSD name -> dotted python name
        self.classes = {}    # XSD name -> ClassDef
        for n in mod.body:
            if isinstance(n, ast.Assign) and len(n.targets) == 1 and isinstance(n.targets[0], ast.Name) \
                    and n.targets[0].id in XSD:
                if n.targets[0].id in self.alias or n.targets[0].id in self.classes:
                    raise Abort("defined twice: " + n.targets[0].id)
                self.alias[n.targets[0].id] = dotted(n.value)
            if isinstance(n, ast.ClassDef) and n.name in XSD:
                if n.name in self.alias or n.name in self.classes:
                    raise Abort("defined twice: " + n.name)
                self.classes[n.name] = n
        missing = [x for x in XSD if x not in self.alias and x not in self.classes]
        if missing:
            raise Abort("XSD classes not found in datatypes.py: " + ", ".join(missing))
        self.py2k = dict(FIXED)
        for x, d in self.alias.items():
            if d in self.py2k:
                raise Abort(f"two names for the Python class {d}")
            self.py2k[d] = "K" + x

    def cls(self, name):
        """a (dotted) class name as written in datatypes.py -> constructor of pcls"""
        if name in self.classes:
            return "K" + name
        if name in self.alias:
            return "K" + name
        if name in self.py2k:
            return self.py2k[name]
        raise Abort("class outside the modelled universe: " + name)

    def bases(self):
        out = {}
        for x, c in self.classes.items():
            if c.keywords:
                raise Abort(f"class {x}: keywords in the class statement")
            if len(c.bases) > 1:
                raise Abort(f"class {x}: multiple inheritance")
            if c.bases:
                out["K" + x] = self.cls(dotted(c.bases[0]))
        for child, parent in STDLIB_BASE.items():
            if child in self.py2k:
                out[self.py2k[child]] = self.cls(parent)
        return out

    def xsd_keys(self):
        for n in self.mod.body:
            tgt = n.target if isinstance(n, ast.AnnAssign) else (n.targets[0] if isinstance(n, ast.Assign) else None)
            if isinstance(tgt, ast.Name) and tgt.id == "XSD_TYPE_NAMES":
                v = n.value
                if isinstance(v, ast.DictComp) and len(v.generators) == 1 and isinstance(v.generators[0].iter, ast.Call) \
                        and isinstance(v.generators[0].iter.func, ast.Attribute) and v.generators[0].iter.func.attr == "items" \
                        and isinstance(v.generators[0].iter.func.value, ast.Dict):
                    v = v.generators[0].iter.func.value
                if not isinstance(v, ast.Dict):
                    raise Abort("XSD_TYPE_NAMES: unsupported shape")
                return [self.cls(dotted(k)) for k in v.keys]
        raise Abort("XSD_TYPE_NAMES not found")

    # ------------------------------------------------------------------ trivial_cast
    def X(self, n, env):
        if isinstance(n, ast.Tuple):
            return [c for e in n.elts for c in self.X(e, env)]
        if isinstance(n, ast.Name) and n.id in env:
            return [env[n.id]]
        return [self.cls(dotted(n))]

    def C(self, n, env):
        if isinstance(n, ast.BoolOp):
            op = " && " if isinstance(n.op, ast.And) else " || "
            return "(" + op.join(self.C(v, env) for v in n.values) + ")"
        if isinstance(n, ast.UnaryOp) and isinstance(n.op, ast.Not):
            return f"(negb {self.C(n.operand, env)})"
        if isinstance(n, ast.Call) and isinstance(n.func, ast.Name) and len(n.args) == 2 and not n.keywords:
            a0 = n.args[0]
            if n.func.id == "isinstance" and isinstance(a0, ast.Name) and a0.id == "value":
                return "(" + " || ".join(f"isinst vc {c}" for c in self.X(n.args[1], env)) + ")"
            if n.func.id == "issubclass" and isinstance(a0, ast.Name) and a0.id == "type_":
                return "(" + " || ".join(f"subcls t {c}" for c in self.X(n.args[1], env)) + ")"
        if isinstance(n, ast.Compare) and len(n.ops) == 1 and isinstance(n.ops[0], (ast.Is, ast.IsNot)) \
                and isinstance(n.left, ast.Name) and n.left.id == "type_":
            (c,) = self.X(n.comparators[0], env)
            e = f"pcls_beq t {c}"
            return f"({e})" if isinstance(n.ops[0], ast.Is) else f"(negb ({e}))"
        raise Abort("trivial_cast: unsupported condition: " + src_of(n))

    def action(self, st):
        if isinstance(st, ast.Raise) and isinstance(st.exc, ast.Call) and isinstance(st.exc.func, ast.Name) \
                and st.exc.func.id == "TypeError" and st.cause is None:
            return "TcTypeError"
        if isinstance(st, ast.Return) and st.value is not None:
            s = src_of(st.value)
            if s == "value":
                return "TcSame"
            if s == "type_(value)":
                return "TcConstruct"
            if s == "Date(value.year, value.month, value.day)":
                return "TcDate"
        raise Abort("trivial_cast: unsupported action: " + src_of(st))

    def guarded(self, st, env):
        if not (isinstance(st, ast.If) and not st.orelse and len(st.body) == 1):
            raise Abort("trivial_cast: unsupported statement: " + src_of(st)[:200])
        return self.C(st.test, env), self.action(st.body[0])

    def trivial_cast(self):
        fn = find_func(self.mod.body, "trivial_cast")
        if [a.arg for a in fn.args.args] != ["value", "type_"] or fn.args.vararg or fn.args.kwarg or fn.args.kwonlyargs \
                or fn.args.defaults or fn.decorator_list:
            raise Abort("trivial_cast: signature changed")
        body = [s for s in fn.body if not is_docstring(s)]
        if not body:
            raise Abort("trivial_cast: empty body")
        arms = []
        for st in body[:-1]:
            if isinstance(st, ast.For):
                if st.orelse or not isinstance(st.target, ast.Name) or not isinstance(st.iter, ast.Tuple) or len(st.body) != 1:
                    raise Abort("trivial_cast: unsupported loop: " + src_of(st)[:200])
                for e in st.iter.elts:
                    (c,) = self.X(e, {})
                    arms.append(self.guarded(st.body[0], {"type_": "t", st.target.id: c}))
            else:
                arms.append(self.guarded(st, {"type_": "t"}))
        last = self.action(body[-1])
        if last != "TcTypeError":
            raise Abort("trivial_cast: does not end in raise TypeError")
        return arms, last

    def normalized_forbidden(self):
        c = self.classes.get("NormalizedString")
        if c is None:
            raise Abort("NormalizedString is not a class")
        fn = find_func(c.body, "__new__")
        body = [s for s in fn.body if not is_docstring(s)]
        if len(body) != 3 or src_of(body[0]) != "res = str.__new__(cls, *args, **kwargs)" or src_of(body[2]) != "return res":
            raise Abort("NormalizedString.__new__: unsupported body")
        st = body[1]
        if not (isinstance(st, ast.If) and not st.orelse and len(st.body) == 1 and isinstance(st.body[0], ast.Raise)
                and src_of(st.body[0]).startswith("raise ValueError(") and isinstance(st.test, ast.BoolOp)
                and isinstance(st.test.op, ast.Or)):
            raise Abort("NormalizedString.__new__: unsupported check")
        chars = []
        for v in st.test.values:
            if not (isinstance(v, ast.Compare) and len(v.ops) == 1 and isinstance(v.ops[0], ast.In)
                    and isinstance(v.left, ast.Constant) and isinstance(v.left.value, str) and len(v.left.value) == 1
                    and src_of(v.comparators[0]) == "res"):
                raise Abort("NormalizedString.__new__: unsupported disjunct: " + src_of(v))
            chars.append(ord(v.left.value))
        return chars


def translate(repo):
    mod, _ = parse(os.path.join(repo, "sdk/basyx/aas/model/datatypes.py"))
    tr = Tr(mod)
    bases = tr.bases()
    keys = tr.xsd_keys()
    arms, last = tr.trivial_cast()
    forb = tr.normalized_forbidden()
    body = "".join(f"  if {c} then {a} else\n" for c, a in arms) + f"  {last}."
    text = ("(* GENERATED by tools/py2coq/typedvalues.py from sdk/basyx/aas/model/datatypes.py on every run - do not edit. *)\n"
            "From Coq Require Import List ZArith Bool.\nFrom Basyx Require Import model.TypedBase.\nImport ListNotations.\n\n"
            "(* class statements (single inheritance); bool < int and datetime < date are CPython facts *)\n"
            "Definition direct_base (c : pcls) : option pcls :=\n  match c with\n"
            + "".join(f"  | {k} => Some {v}\n" for k, v in sorted(bases.items()))
            + "  | _ => None\n  end.\n"
            "Definition subcls : pcls -> pcls -> bool := subcls_with direct_base.\n"
            "Definition isinst : pcls -> pcls -> bool := subcls.\n\n"
            "(* keys of XSD_TYPE_NAMES *)\nDefinition xsd_types : list pcls :=\n  [" + "; ".join(keys) + "].\n\n"
            "(* trivial_cast(value, type_): vc = class of value, t = type_ *)\n"
            "Definition trivial_cast_gen (vc t : pcls) : tc_act :=\n" + body + "\n\n"
            "(* NormalizedString.__new__ raises ValueError iff one of these characters occurs *)\n"
            "Definition normalized_string_forbidden : list Z := [" + "; ".join(f"{c}%Z" for c in forb) + "].\n")
    return text, {"bases": bases, "xsd_types": keys, "arms": [a for _, a in arms], "forbidden": forb}


def regenerate(repo, gen_dir):
    from common import write_if_changed
    text, info = translate(repo)
    write_if_changed(os.path.join(gen_dir, "Gen_TypedValues.v"), text)
    return info
