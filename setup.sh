#!/bin/bash
# Build the whole Coq development (full .vo build) from files on disk; offline.
here="$(cd "$(dirname "$0")" && pwd)"
export PYTHONPATH="/repo/sdk:/repo/compliance_tool:$here/tools"
export PYTHONHASHSEED=0 PIP_NO_INDEX=1
exec /venv/bin/python "$here/tools/setup_all.py" 2> >(grep -v -i 'conda' >&2)
